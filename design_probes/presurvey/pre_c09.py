import pennylane as qp, numpy as np, warnings
warnings.filterwarnings("ignore")
rng = np.random.default_rng(3)
names = [n for n in dir(qp.ops) if isinstance(getattr(qp.ops,n), type) and issubclass(getattr(qp.ops,n), qp.operation.Operator)]
special = {'MultiRZ': dict(nw=3), 'PauliRot': dict(nw=2, kw={'pauli_word':'XY'}), 'PCPhase': dict(nw=2, kw={'dim':3}), 'GlobalPhase': dict(nw=1)}
res = []
for name in sorted(names):
    cls = getattr(qp.ops, name); sp = special.get(name, {})
    nw = sp.get('nw', cls.num_wires if isinstance(getattr(cls,'num_wires',None), int) else None)
    npar = cls.num_params if isinstance(getattr(cls,'num_params',None), int) else None
    if not nw or not npar: continue
    nd = getattr(cls, 'ndim_params', None)
    if isinstance(nd, tuple) and any(d != 0 for d in nd): continue
    try:
        op0 = cls(*rng.uniform(-3,3,size=npar), wires=list(range(nw)), **sp.get('kw', {}))
        freqs = qp.gradients.parameter_frequencies(op0)
    except Exception as e:
        res.append((name, 'no freqs', repr(e)[:60])); continue
    dim = 2**nw
    for k in range(npar):
        F = sorted(freqs[k]); 
        # scale: frequencies are multiples of 1/4 at most; sample period 8*pi with N points
        N = 64; L = 8*np.pi
        base = rng.uniform(-3,3,size=npar)
        psi = rng.normal(size=dim) + 1j*rng.normal(size=dim); psi /= np.linalg.norm(psi)
        A = rng.normal(size=(dim,dim)) + 1j*rng.normal(size=(dim,dim)); Hm = A + A.conj().T
        vals = []
        for j in range(N):
            p = base.copy(); p[k] = base[k] + L*j/N
            U = qp.matrix(cls(*p, wires=list(range(nw)), **sp.get('kw', {})))
            v = U @ psi; vals.append(np.real(v.conj() @ Hm @ v))
        c = np.fft.rfft(vals)/N
        present = sorted({round(m*2*np.pi/L, 6) for m in range(1, len(c)) if abs(c[m]) > 1e-8})
        extra = [f for f in present if not any(abs(f-g) < 1e-6 for g in F)]
        res.append((name, k, F, present, 'EXTRA' if extra else 'ok'))
bad = [r for r in res if r[-1] != 'ok']
print(len(res), "checked; not ok:"); 
for r in bad: print("  ", r)
