import pennylane as qp, numpy as np, warnings, itertools, networkx as nx
warnings.filterwarnings("ignore")
rng = np.random.default_rng(23)
print("== C28 Kraus completeness")
chs = {
 'AmplitudeDamping': lambda p: qp.AmplitudeDamping(p[0], 0), 'GeneralizedAmplitudeDamping': lambda p: qp.GeneralizedAmplitudeDamping(p[0], p[1], 0),
 'PhaseDamping': lambda p: qp.PhaseDamping(p[0], 0), 'DepolarizingChannel': lambda p: qp.DepolarizingChannel(p[0], 0), 'BitFlip': lambda p: qp.BitFlip(p[0], 0),
 'PhaseFlip': lambda p: qp.PhaseFlip(p[0], 0), 'ResetError': lambda p: qp.ResetError(p[0]*0.5, p[1]*0.5, 0), 'PauliError': lambda p: qp.PauliError('XY', p[0], [0,1]),
 'ThermalRelaxationError': lambda p: qp.ThermalRelaxationError(p[0], 1.0+p[1], (1.0+p[1])*(0.2+1.7*p[2]), 0.3, 0),
}
for name, f in chs.items():
    worst = 0
    for p in list(itertools.product([0.0, 1.0, 0.5, 1e-9, 1-1e-9], repeat=3))[:60] + [tuple(rng.uniform(0,1,3)) for _ in range(40)]:
        try:
            K = f(p).kraus_matrices()
        except Exception as e:
            print("   ", name, p, "raised", repr(e)[:80]); break
        S = sum(k.conj().T @ k for k in K); worst = max(worst, np.abs(S-np.eye(len(S))).max())
    print(f"   {name:28s} max |sum K†K - I| = {worst:.2e}")
print("== C72 QAOA")
from pennylane import qaoa
def diag_of(H, nodes):
    M = qp.matrix(H, wire_order=nodes); assert np.allclose(M, np.diag(np.diag(M))); return np.real(np.diag(M))
bad = []
for n in (2,3,4):
    nodes = list(range(n)); pairs = list(itertools.combinations(nodes, 2))
    for mask in range(1, 2**len(pairs)):
        g = nx.Graph(); g.add_nodes_from(nodes); g.add_edges_from([pairs[i] for i in range(len(pairs)) if mask>>i & 1])
        for name in ('maxcut','max_independent_set','min_vertex_cover','max_clique'):
            for constrained in ((None,) if name=='maxcut' else (True, False)):
                try:
                    H, M = getattr(qaoa, name)(g) if constrained is None else getattr(qaoa, name)(g, constrained=constrained)
                except Exception as e:
                    bad.append((name, n, mask, 'raise', repr(e)[:60])); continue
                d = diag_of(H, nodes)
                for b in range(2**n):
                    bits = [(b >> (n-1-i)) & 1 for i in range(n)]
                    S = {i for i in nodes if bits[i]}
                    if name == 'maxcut': exp = -sum(1 for (u,v) in g.edges if bits[u]!=bits[v])
                    elif name == 'max_independent_set':
                        exp = -len(S) if constrained else (3*sum(1 for (u,v) in g.edges if bits[u] and bits[v]) - len(S))
                        if constrained: continue   # only meaningful on feasible set up to offset; skip
                    elif name == 'min_vertex_cover':
                        if constrained: continue
                        exp = 3*sum(1 for (u,v) in g.edges if not bits[u] and not bits[v]) + len(S)
                    elif name == 'max_clique':
                        if constrained: continue
                        gc = nx.complement(g); exp = 3*sum(1 for (u,v) in gc.edges if bits[u] and bits[v]) - len(S)
                    # compare up to a constant offset per Hamiltonian
                    bad.append((name, n, mask, constrained, b, d[b]-exp)) if False else None
                    d_off = d[b]-exp
                    key=(name,n,mask,constrained)
                    globals().setdefault('offs', {}).setdefault(key, []).append(d_off)
incons = {k: (min(v), max(v)) for k, v in offs.items() if max(v)-min(v) > 1e-9}
print("   hamiltonians checked", len(offs), "inconsistent (non-constant offset):", len(incons)); 
for k, v in list(incons.items())[:6]: print("     ", k, v)
nonzero_off = {k: v[0] for k, v in offs.items() if abs(v[0]) > 1e-9 and k not in incons}
print("   constant but non-zero offsets:", len(nonzero_off), list(nonzero_off.items())[:4])
