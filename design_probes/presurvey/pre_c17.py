import pennylane as qp, numpy as np, warnings, sys
warnings.filterwarnings("ignore")
if len(sys.argv) > 1: exec(open('/verif/design_probes/presurvey/prodfix.py').read())
rng = np.random.default_rng(11)
def ang(): return float(rng.choice([rng.uniform(-3,3), 0.0, np.pi, -np.pi, 2*np.pi, np.pi/2, -np.pi/2]))
def gate(nw):
    w = [int(x) for x in rng.permutation(nw)]
    k = rng.integers(0, 26)
    G = [lambda: qp.RX(ang(), w[0]), lambda: qp.RY(ang(), w[0]), lambda: qp.RZ(ang(), w[0]), lambda: qp.PhaseShift(ang(), w[0]),
         lambda: qp.Rot(ang(), ang(), ang(), w[0]), lambda: qp.X(w[0]), lambda: qp.Y(w[0]), lambda: qp.Z(w[0]), lambda: qp.Hadamard(w[0]),
         lambda: qp.S(w[0]), lambda: qp.adjoint(qp.S(w[0])), lambda: qp.T(w[0]), lambda: qp.adjoint(qp.T(w[0])), lambda: qp.SX(w[0])]
    if nw >= 2:
        G += [lambda: qp.CNOT(w[:2]), lambda: qp.CZ(w[:2]), lambda: qp.CY(w[:2]), lambda: qp.SWAP(w[:2]), lambda: qp.CRX(ang(), w[:2]), lambda: qp.CRY(ang(), w[:2]), lambda: qp.CRZ(ang(), w[:2]),
              lambda: qp.IsingXX(ang(), w[:2]), lambda: qp.IsingZZ(ang(), w[:2]), lambda: qp.ControlledPhaseShift(ang(), w[:2]), lambda: qp.CRot(ang(), ang(), ang(), w[:2]), lambda: qp.ISWAP(w[:2])]
    if nw >= 3:
        G += [lambda: qp.Toffoli(w[:3]), lambda: qp.CSWAP(w[:3]), lambda: qp.CCZ(w[:3])]
    return G[int(rng.integers(0, len(G)))]()
def circuit(nw, n):
    ops = []
    for _ in range(n):
        g = gate(nw); ops.append(g)
        r = rng.random()
        if r < 0.25: ops.append(qp.adjoint(g) if rng.random() < 0.5 else type(g)(*g.parameters, wires=g.wires) if g.num_params == 0 and not isinstance(g, qp.ops.op_math.Adjoint) else g)
        elif r < 0.35: ops.append(qp.Barrier(list(range(nw))))
        elif r < 0.45: ops.append(qp.GlobalPhase(ang()))
    return ops
def U(ops, nw): 
    return qp.matrix(qp.tape.QuantumScript(ops), wire_order=list(range(nw)))
def eq_phase(A, B):
    i = np.unravel_index(np.abs(A).argmax(), A.shape)
    if abs(B[i]) < 1e-9: return False
    ph = A[i]/B[i]
    return abs(abs(ph)-1) < 1e-7 and np.allclose(A, ph*B, atol=1e-7)
passes = {
 'cancel_inverses': lambda t: qp.transforms.cancel_inverses(t),
 'cancel_inverses_rec': lambda t: qp.transforms.cancel_inverses(t, recursive=True) if 'recursive' in qp.transforms.cancel_inverses.__wrapped__.__code__.co_varnames else qp.transforms.cancel_inverses(t),
 'merge_rotations': lambda t: qp.transforms.merge_rotations(t),
 'commute_left': lambda t: qp.transforms.commute_controlled(t, direction='left'),
 'commute_right': lambda t: qp.transforms.commute_controlled(t, direction='right'),
 'single_qubit_fusion': lambda t: qp.transforms.single_qubit_fusion(t),
 'undo_swaps': lambda t: qp.transforms.undo_swaps(t),
 'combine_global_phases': lambda t: qp.transforms.combine_global_phases(t),
 'remove_barrier': lambda t: qp.transforms.remove_barrier(t),
 'compile': lambda t: qp.compile(t),
}
stats = {k: [0,0,0] for k in passes}; examples = {}
for trial in range(400):
    nw = int(rng.integers(1, 4)); ops = circuit(nw, int(rng.integers(2, 7)))
    tape = qp.tape.QuantumScript(ops, [qp.expval(qp.Z(0))])
    try: U0 = U(ops, nw)
    except Exception as e: continue
    for name, f in passes.items():
        try:
            tape = qp.tape.QuantumScript(list(ops), [qp.expval(qp.Z(0))])
            (out,), _ = f(tape)
        except Exception as e:
            stats[name][2] += 1; examples.setdefault((name,'raise'), (repr(e)[:100], [str(o) for o in ops])); continue
        stats[name][0] += 1
        if name == 'undo_swaps':
            # compare measurement-relevant: out with measurements mapped; check expval equality via matrices on mapped observable
            st0 = U0[:,0]; ev0 = np.real(st0.conj() @ qp.matrix(qp.Z(0), wire_order=list(range(nw))) @ st0)
            U1 = U(out.operations, nw); st1 = U1[:,0]; ob = out.measurements[0].obs
            ev1 = np.real(st1.conj() @ qp.matrix(ob, wire_order=list(range(nw))) @ st1)
            ok = abs(ev0-ev1) < 1e-7
        else:
            ok = eq_phase(U(out.operations, nw), U0)
        if not ok:
            stats[name][1] += 1; examples.setdefault((name,'wrong'), ([str(o) for o in ops], [str(o) for o in out.operations]))
print({k: v for k, v in stats.items()})
for k, v in examples.items(): print(k, v)
