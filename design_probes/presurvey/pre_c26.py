import pennylane as qp, numpy as np, warnings, sys, itertools
warnings.filterwarnings("ignore")
if len(sys.argv) > 1: exec(open('/verif/design_probes/presurvey/prodfix.py').read())
rng = np.random.default_rng(17)
def ang(): return float(rng.uniform(-3,3))
def gate(W):
    w=[W[int(i)] for i in rng.permutation(len(W))]
    G=[lambda: qp.RX(ang(),w[0]), lambda: qp.RY(ang(),w[0]), lambda: qp.RZ(ang(),w[0]), lambda: qp.PhaseShift(ang(),w[0]), lambda: qp.Rot(ang(),ang(),ang(),w[0]),
       lambda: qp.X(w[0]), lambda: qp.Y(w[0]), lambda: qp.Z(w[0]), lambda: qp.Hadamard(w[0]), lambda: qp.S(w[0]), lambda: qp.T(w[0]), lambda: qp.SX(w[0]), lambda: qp.Identity(w[0]), lambda: qp.GlobalPhase(ang()),
       lambda: qp.adjoint(qp.T(w[0])), lambda: qp.pow(qp.RX(ang(),w[0]), 2), lambda: qp.QubitUnitary(qp.matrix(qp.Rot(ang(),ang(),ang(),0)), w[0])]
    if len(W)>=2: G+=[lambda: qp.CNOT(w[:2]), lambda: qp.CZ(w[:2]), lambda: qp.CY(w[:2]), lambda: qp.SWAP(w[:2]), lambda: qp.ISWAP(w[:2]), lambda: qp.CRX(ang(),w[:2]), lambda: qp.CRot(ang(),ang(),ang(),w[:2]), lambda: qp.IsingXX(ang(),w[:2]), lambda: qp.IsingXY(ang(),w[:2]), lambda: qp.IsingZZ(ang(), w[:2]), lambda: qp.ControlledPhaseShift(ang(),w[:2]), lambda: qp.SingleExcitation(ang(), w[:2]), lambda: qp.ctrl(qp.S(w[0]), control=w[1]), lambda: qp.ctrl(qp.RY(ang(), w[0]), control=w[1], control_values=[0]), lambda: qp.PauliRot(ang(), 'XY', w[:2]), lambda: qp.MultiRZ(ang(), w[:2]), lambda: qp.prod(qp.RX(ang(), w[0]), qp.CNOT(w[:2]))]
    if len(W)>=3: G+=[lambda: qp.Toffoli(w[:3]), lambda: qp.CSWAP(w[:3]), lambda: qp.CCZ(w[:3]), lambda: qp.MultiControlledX(wires=w[:3], control_values=[0,1]), lambda: qp.ctrl(qp.IsingXX(ang(), w[:2]), control=w[2]), lambda: qp.MultiRZ(ang(), w[:3])]
    if len(W)>=4: G+=[lambda: qp.DoubleExcitation(ang(), w[:4]), lambda: qp.ctrl(qp.Rot(ang(),ang(),ang(), w[0]), control=w[1:4], control_values=[1,0,1])]
    return G[int(rng.integers(0,len(G)))]()
def refstate(ops, W):
    n=len(W); psi=np.zeros([2]*n, dtype=complex); psi[(0,)*n]=1
    for op in ops:
        k=len(op.wires)
        if k==0: psi = psi*qp.matrix(op)[0,0]; continue
        M=qp.matrix(op).reshape([2]*(2*k)); ax=[W.index(w) for w in op.wires]
        psi=np.tensordot(M, psi, axes=(list(range(k,2*k)), ax)); psi=np.moveaxis(psi, list(range(k)), ax)
    return psi.reshape(-1)
dev=qp.device('default.qubit')
bad=[]; n=0
for trial in range(400):
    nw=int(rng.integers(1,6)); labels=[['a','b',3,0,'z'],[0,1,2,3,4],[4,2,0,1,3]][int(rng.integers(0,3))][:nw]
    ops=[gate(labels) for _ in range(int(rng.integers(1,9)))]
    used=qp.tape.QuantumScript(ops).wires
    W=[w for w in labels if w in used] or labels[:1]
    order=[W[int(i)] for i in rng.permutation(len(W))]
    devw=qp.device('default.qubit', wires=order)
    t=qp.tape.QuantumScript(ops,[qp.state(), qp.probs(wires=order[:max(1,len(order)-1)]), qp.expval(qp.Z(order[0])), qp.var(qp.X(order[-1])), qp.purity(wires=order[:1]), qp.density_matrix(wires=order[:1])])
    try:
        st, pr, ev, va, pu, dm = qp.execute([t], devw)[0]
    except Exception as e:
        bad.append(('raise', repr(e)[:100], [str(o) for o in ops])); continue
    n+=1
    ref=refstate(ops, order)
    if not np.allclose(st, ref, atol=1e-8): bad.append(('state', [str(o) for o in ops], order)); continue
    N=len(order); T=ref.reshape([2]*N); P=np.abs(T)**2
    k=max(1,N-1); prr=P.sum(axis=tuple(range(k,N))).reshape(-1) if k<N else P.reshape(-1)
    if not np.allclose(pr, prr, atol=1e-8): bad.append(('probs', [str(o) for o in ops], order))
    Z0=qp.matrix(qp.Z(order[0]), wire_order=order); X1=qp.matrix(qp.X(order[-1]), wire_order=order)
    if abs(ev-np.real(ref.conj()@Z0@ref))>1e-8: bad.append(('expval',))
    if abs(va-(1-np.real(ref.conj()@X1@ref)**2))>1e-8: bad.append(('var',))
    rho=np.tensordot(T, T.conj(), axes=(list(range(1,N)), list(range(1,N)))) if N>1 else np.outer(ref, ref.conj())
    if not np.allclose(dm, rho, atol=1e-8): bad.append(('dm',))
    if abs(pu-np.real(np.trace(rho@rho)))>1e-8: bad.append(('purity',))
print("circuits", n, "bad", len(bad))
for b in bad[:8]: print("  ", b)
