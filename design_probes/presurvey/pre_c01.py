import pennylane as qp, numpy as np, warnings, itertools, scipy.linalg as sla
warnings.filterwarnings("ignore")
rng = np.random.default_rng(2)
import pennylane.ops as O
names = [n for n in dir(qp.ops) if isinstance(getattr(qp.ops,n), type) and issubclass(getattr(qp.ops,n), qp.operation.Operator)]
special = {'MultiRZ': dict(nw=3), 'PauliRot': dict(nw=2, kw={'pauli_word':'XY'}), 'PCPhase': dict(nw=2, kw={'dim':3}), 'GlobalPhase': dict(nw=1),
           'Identity': dict(nw=2), 'MultiControlledX': dict(nw=3, kw={'control_values':[1,0]}), 'Barrier': dict(nw=2), 'WireCut': dict(nw=1)}
def make(name, angle=None):
    cls = getattr(qp.ops, name)
    sp = special.get(name, {})
    nw = sp.get('nw', cls.num_wires if isinstance(getattr(cls,'num_wires',None), int) else None)
    npar = cls.num_params if isinstance(getattr(cls,'num_params',None), int) else None
    if nw is None or npar is None: return None
    if getattr(cls, 'ndim_params', None) and any(d != 0 for d in cls.ndim_params): return None
    p = rng.uniform(-3,3,size=npar) if angle is None else [angle]*npar
    return cls(*p, wires=list(range(nw)), **sp.get('kw', {}))
issues = []; done = 0
for name in sorted(names):
    for angle in (None, 0.0, np.pi, -np.pi, 2*np.pi):
        try:
            op = make(name, angle)
        except Exception as e:
            op = None
        if op is None or not op.has_matrix: continue
        try:
            M = qp.matrix(op); w = list(op.wires); done += 1
        except Exception as e:
            issues.append((name, 'matrix raised', repr(e)[:60])); continue
        # decomposition
        if op.has_decomposition:
            try:
                D = qp.matrix(qp.tape.QuantumScript(op.decomposition()), wire_order=w)
                if not np.allclose(M, D): issues.append((name, angle, 'decomposition mismatch', np.allclose(abs(np.trace(M.conj().T@D)), len(M))))
            except Exception as e: issues.append((name, angle, 'decomp raised', repr(e)[:80]))
        # eigvals
        try:
            ev = qp.eigvals(op)
            if not np.allclose(np.sort_complex(np.round(ev,8)), np.sort_complex(np.round(np.linalg.eigvals(M),8)), atol=1e-6): issues.append((name, angle, 'eigvals mismatch'))
        except qp.exceptions.EigvalsUndefinedError: pass
        except Exception as e: issues.append((name, angle, 'eigvals raised', repr(e)[:80]))
        # diagonalizing gates
        if op.has_diagonalizing_gates:
            try:
                dg = op.diagonalizing_gates()
                U = qp.matrix(qp.tape.QuantumScript(dg), wire_order=w) if dg else np.eye(len(M))
                ev = op.eigvals()
                if not np.allclose(U.conj().T @ np.diag(ev) @ U, M): issues.append((name, angle, 'diag gates mismatch'))
            except Exception as e: issues.append((name, angle, 'diag raised', repr(e)[:80]))
        # generator
        if getattr(op, 'has_generator', False) and op.num_params == 1:
            try:
                G, c = qp.generator(op, format='prefactor')
                Gm = qp.matrix(G, wire_order=w)
                th = op.data[0]
                if not np.allclose(sla.expm(1j*c*th*Gm), M): issues.append((name, angle, 'generator mismatch'))
            except Exception as e: issues.append((name, angle, 'generator raised', repr(e)[:80]))
        # wire order
        if len(w) > 1:
            perm = w[::-1]
            Mp = qp.matrix(op, wire_order=perm)
            n = len(w); T = M.reshape([2]*(2*n)); ax = [w.index(x) for x in perm]
            Mref = T.transpose(ax + [a+n for a in ax]).reshape(2**n, 2**n)
            if not np.allclose(Mp, Mref): issues.append((name, angle, 'wire_order mismatch'))
        # sparse
        if op.has_sparse_matrix:
            try:
                Sm = op.sparse_matrix().toarray()
                if not np.allclose(Sm, M): issues.append((name, angle, 'sparse mismatch'))
            except Exception as e: issues.append((name, angle, 'sparse raised', repr(e)[:80]))
        # pauli_rep
        if op.pauli_rep is not None:
            Pm = op.pauli_rep.to_mat(wire_order=w)
            if not np.allclose(Pm, M): issues.append((name, angle, 'pauli_rep mismatch'))
print("instances", done, "issues", len(issues))
for i in issues[:40]: print("  ", i)
