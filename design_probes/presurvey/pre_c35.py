import pennylane as qp, numpy as np, warnings, itertools, math
warnings.filterwarnings("ignore")
from pennylane.gradients import generate_shift_rule, generate_multi_shift_rule, finite_diff_coeffs, eigvals_to_frequencies
rng=np.random.default_rng(8); bad=[]
fsets=[(1,),(1,2),(1,2,3),(1,2,3,4),(0.5,1),(0.5,),(1,3),(2,5),(0.3,1.1,2.7),(1,2,4),(0.5,1,1.5,2),(1.0,1.4142135),(3,),(0.25,0.5,0.75,1.0),(1,2,3,4,5)]
for F in fsets:
    for order in (1,2,3):
        for shifts in (None,'rand'):
            sh=None if shifts is None else tuple(sorted(rng.uniform(0.2,2.8,size=len(F))))
            try: rule=generate_shift_rule(F, shifts=sh, order=order)
            except Exception as e: bad.append(('raise',F,order,sh,repr(e)[:80])); continue
            for t in range(5):
                a0=rng.normal(); a=rng.normal(size=len(F)); b=rng.normal(size=len(F)); x=rng.uniform(-5,5)
                f=lambda y: a0+sum(a[k]*np.cos(F[k]*y)+b[k]*np.sin(F[k]*y) for k in range(len(F)))
                # exact derivative
                d=0
                for k in range(len(F)):
                    w=F[k]
                    # nth derivative of cos(wy): w^n cos(wy + n pi/2)
                    d+=a[k]*w**order*np.cos(w*x+order*np.pi/2)+b[k]*w**order*np.sin(w*x+order*np.pi/2)
                est=sum(c*f(x+s) for c,s in rule)
                if abs(est-d)>1e-7*max(1,abs(d)): bad.append(('rule wrong',F,order,sh,est,d)); break
# multi shift
for F1,F2 in [((1,),(1,)),((1,2),(1,)),((0.5,1),(1,2))]:
    rule=generate_multi_shift_rule([F1,F2])
    for t in range(5):
        A=rng.normal(size=(2*len(F1)+1,2*len(F2)+1)); x,y=rng.uniform(-3,3,size=2)
        def basis(F,z,der=0):
            out=[1.0 if der==0 else 0.0]
            for w in F: out+= [w**der*np.cos(w*z+der*np.pi/2), w**der*np.sin(w*z+der*np.pi/2)]
            return np.array(out)
        f=lambda u,v: basis(F1,u)@A@basis(F2,v)
        d=basis(F1,x,1)@A@basis(F2,y,1)
        est=sum(r[0]*f(x+r[1],y+r[2]) for r in rule)
        if abs(est-d)>1e-7*max(1,abs(d)): bad.append(('multi wrong',F1,F2,est,d)); break
# finite diff
for n,ao,strat in itertools.product((1,2),(1,2,3,4),('forward','backward','center')):
    try: C=finite_diff_coeffs(n,ao,strat)
    except Exception as e: bad.append(('fd raise',n,ao,strat,repr(e)[:60])); continue
    coeffs,shifts=C
    deg=n+ao-1
    for k in range(deg+1):
        val=sum(c*s**k for c,s in zip(coeffs,shifts)); exp=math.factorial(n) if k==n else 0
        if abs(val-exp)>1e-8: bad.append(('fd moment',n,ao,strat,k,val,exp))
print("bad",len(bad)); print([str(b)[:200] for b in bad[:8]])
