import pennylane as qp, numpy as np, warnings, itertools, random
warnings.filterwarnings("ignore")
rng=np.random.default_rng(2); random.seed(2); bad=[]
def rstate(n): v=rng.normal(size=2**n)+1j*rng.normal(size=2**n); return v/np.linalg.norm(v)
def rdm(n,r=None):
    r=r or 2**n; A=rng.normal(size=(2**n,r))+1j*rng.normal(size=(2**n,r)); rho=A@A.conj().T; return rho/np.trace(rho)
def ptrace_ref(rho,n,keep):
    T=rho.reshape([2]*(2*n)); tr=[i for i in range(n) if i not in keep]
    # trace out
    idx=list(range(2*n)); 
    for i in tr: idx[i+n]=idx[i]
    outk=[i for i in keep]+[i+n for i in keep]
    return np.einsum(T, idx, outk).reshape(2**len(keep),2**len(keep))
for t in range(300):
    n=int(rng.integers(1,5)); rho=rdm(n, int(rng.integers(1,2**n+1))); psi=rstate(n)
    k=int(rng.integers(1,n+1)); keep=sorted(random.sample(range(n),k)); perm=random.sample(keep,k)
    try:
        r=qp.math.reduce_dm(rho, perm); ref=ptrace_ref(rho,n,perm)
        if not np.allclose(r,ref): bad.append(('reduce_dm',n,perm))
        r2=qp.math.reduce_statevector(psi, perm); ref2=ptrace_ref(np.outer(psi,psi.conj()),n,perm)
        if not np.allclose(r2,ref2): bad.append(('reduce_sv',n,perm))
        tr=[i for i in range(n) if i not in keep]
        if tr:
            r3=qp.math.partial_trace(rho, tr); ref3=ptrace_ref(rho,n,keep)
            if not np.allclose(r3,ref3): bad.append(('partial_trace',n,tr))
        # batch
        rb=qp.math.reduce_dm(np.stack([rho,rdm(n)]), perm)
        if not np.allclose(rb[0],ref): bad.append(('reduce_dm batch',))
    except Exception as e: bad.append(('raise',repr(e)[:100]))
    phi=rstate(n)
    f=qp.math.fidelity_statevector(psi,phi); 
    if abs(f-abs(np.vdot(psi,phi))**2)>1e-10 or abs(f-qp.math.fidelity_statevector(phi,psi))>1e-10: bad.append(('fid sv',))
    s2=rdm(n); F=qp.math.fidelity(rho,s2); F2=qp.math.fidelity(s2,rho)
    if abs(F-F2)>1e-7 or F<-1e-9 or F>1+1e-9: bad.append(('fid dm sym/bounds',F,F2))
    if abs(qp.math.fidelity(np.outer(psi,psi.conj()), np.outer(phi,phi.conj()))-f)>1e-7: bad.append(('fid dm vs sv',))
    td=qp.math.trace_distance(rho,s2); s3=rdm(n)
    if td<-1e-9 or td>1+1e-9 or abs(td-qp.math.trace_distance(s2,rho))>1e-9 or td>qp.math.trace_distance(rho,s3)+qp.math.trace_distance(s3,s2)+1e-9: bad.append(('trace dist',))
    ev=np.clip(np.linalg.eigvalsh(rho),1e-300,None); S=-np.sum(ev*np.log(ev))
    if abs(qp.math.vn_entropy(rho, list(range(n)))-S)>1e-7: bad.append(('vn',))
    if n>=2:
        a=keep[:1]; b=[i for i in range(n) if i not in a][:1]
        mi=qp.math.mutual_info(rho, a, b)
        if mi<-1e-8: bad.append(('mi neg',mi))
        re=qp.math.relative_entropy(rho, s2)
        if re<-1e-8: bad.append(('rel ent neg',re))
    # expand_matrix
    kk=int(rng.integers(1,3)); M=rng.normal(size=(2**kk,2**kk)); wires=random.sample(['a','b',0,1],kk); wo=random.sample(['a','b',0,1],4)
    E=qp.math.expand_matrix(M, wires, wo)
    T=np.kron(M, np.eye(2**(4-kk))).reshape([2]*8); cur=wires+[w for w in wo if w not in wires]; ax=[cur.index(w) for w in wo]
    ref=T.transpose(ax+[a_+4 for a_ in ax]).reshape(16,16)
    if not np.allclose(E,ref): bad.append(('expand_matrix',wires,wo))
from collections import Counter
print("bad",len(bad),Counter(b[0] for b in bad)); print([str(b)[:200] for b in bad[:5]])
