import pennylane as qp, numpy as np, warnings, sys
warnings.filterwarnings("ignore")
if len(sys.argv) > 1: exec(open('/verif/design_probes/presurvey/prodfix.py').read())
rng = np.random.default_rng(7)
dev = qp.device('default.qubit')
def ang(): return float(rng.uniform(-3,3))
def circ(nw):
    ops=[]
    for _ in range(int(rng.integers(2,7))):
        w=[int(x) for x in rng.permutation(nw)]
        k=int(rng.integers(0,8))
        ops.append([lambda: qp.RX(ang(),w[0]), lambda: qp.RY(ang(),w[0]), lambda: qp.RZ(ang(),w[0]), lambda: qp.Hadamard(w[0]), lambda: qp.CNOT(w[:2]), lambda: qp.CRY(ang(),w[:2]), lambda: qp.IsingXY(ang(),w[:2]), lambda: qp.T(w[0])][k]())
    return ops
def pword(nw):
    ws=[int(x) for x in rng.permutation(nw)[:int(rng.integers(1,nw+1))]]
    fs=[ [qp.X,qp.Y,qp.Z,qp.Identity][int(rng.integers(0,4))](w) for w in ws]
    return fs[0] if len(fs)==1 else qp.prod(*fs)
def obs(nw):
    k=int(rng.integers(0,6))
    if k==0: return pword(nw)
    if k==1: return qp.s_prod(ang(), pword(nw))
    if k==2: return qp.sum(*[qp.s_prod(ang(), pword(nw)) for _ in range(int(rng.integers(2,5)))])
    if k==3: return qp.sum(qp.s_prod(ang(), pword(nw)), qp.s_prod(ang(), qp.Identity(0)), pword(nw))
    if k==4: return qp.Hamiltonian([ang() for _ in range(3)], [pword(nw) for _ in range(3)])
    A=rng.normal(size=(2,2)); return qp.Hermitian(A+A.T, wires=int(rng.integers(0,nw)))
def meas(nw):
    k=int(rng.integers(0,5)); 
    if k<=2: return qp.expval(obs(nw))
    if k==3: return qp.var(pword(nw))
    return qp.probs(wires=[int(x) for x in rng.permutation(nw)[:int(rng.integers(1,nw+1))]])
def flat(r): 
    return np.concatenate([np.atleast_1d(np.asarray(x, dtype=float)).ravel() for x in (r if isinstance(r,(tuple,list)) else [r])])
tfs = {
 'split_default': lambda t: qp.transforms.split_non_commuting(t),
 'split_qwc': lambda t: qp.transforms.split_non_commuting(t, grouping_strategy='qwc'),
 'split_wires': lambda t: qp.transforms.split_non_commuting(t, grouping_strategy='wires'),
 'split_none': lambda t: qp.transforms.split_non_commuting(t, grouping_strategy=None),
 'single_terms': lambda t: qp.transforms.split_to_single_terms(t),
 'diagonalize': lambda t: qp.transforms.diagonalize_measurements(t),
}
stats={k:[0,0,0] for k in tfs}; ex={}
for trial in range(300):
    nw=int(rng.integers(1,4)); ops=circ(nw) if nw>1 else [qp.RX(ang(),0), qp.RY(ang(),0)]
    ms=[meas(nw) for _ in range(int(rng.integers(1,5)))]
    tape=qp.tape.QuantumScript(ops, ms)
    try: ref=flat(qp.execute([tape], dev)[0])
    except Exception as e: ex.setdefault(('exec','raise'), (repr(e)[:100], [str(m) for m in ms])); continue
    for name,f in tfs.items():
        try:
            tapes, fn = f(qp.tape.QuantumScript(list(ops), list(ms)))
            res = fn(qp.execute(tapes, dev)); got = flat(res)
        except Exception as e:
            stats[name][2]+=1; ex.setdefault((name,'raise'), (repr(e)[:120], [str(m) for m in ms])); continue
        stats[name][0]+=1
        if got.shape!=ref.shape or not np.allclose(got, ref, atol=1e-7):
            stats[name][1]+=1
            idx = [i for i in range(min(len(ref),len(got))) if abs(ref[i]-got[i])>1e-7]
            if sum(1 for k_ in ex if k_[0]==name and k_[1]=='wrong') < 7: ex[(name,'wrong',trial)] = ([str(m) for m in ms], 'diff idx', idx, np.round(ref,4), np.round(got,4))
print(stats)
for k,v in ex.items(): print(k, v)
