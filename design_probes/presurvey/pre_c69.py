import pennylane as qp, numpy as np, warnings, itertools
warnings.filterwarnings("ignore")
from pennylane.spin import transverse_ising, heisenberg, generate_lattice
from pennylane.spin.lattice import Lattice
bad=[]
def ref_edges(shape, n_cells, boundary):
    """independent nearest-neighbour edges for chain/square/rectangle"""
    if shape=='chain':
        L=n_cells[0]; e=[(i,i+1) for i in range(L-1)]
        if boundary[0] and L>2: e.append((L-1,0))
        if boundary[0] and L==2: pass
        return set(map(lambda p: tuple(sorted(p)), e)), L
    if shape in ('square','rectangle'):
        Lx,Ly=n_cells; idx=lambda x,y: x*Ly+y; e=set()
        for x in range(Lx):
            for y in range(Ly):
                if y+1<Ly: e.add(tuple(sorted((idx(x,y),idx(x,y+1)))))
                elif boundary[1] and Ly>2: e.add(tuple(sorted((idx(x,y),idx(x,0)))))
                if x+1<Lx: e.add(tuple(sorted((idx(x,y),idx(x+1,y)))))
                elif boundary[0] and Lx>2: e.add(tuple(sorted((idx(x,y),idx(0,y)))))
        return e, Lx*Ly
for shape,cells in [('chain',[2]),('chain',[3]),('chain',[4]),('chain',[5]),('square',[2,2]),('square',[3,3]),('rectangle',[2,3]),('rectangle',[3,4]),('rectangle',[4,2])]:
    for b in ([False]*len(cells),[True]*len(cells)) + (([True,False],[False,True]) if len(cells)==2 else ()):
        try:
            lat=generate_lattice(shape, cells, boundary_condition=list(b))
        except Exception as e: bad.append(('lattice raise',shape,cells,b,repr(e)[:80])); continue
        E=set(tuple(sorted(e[:2])) for e in lat.edges); ref,n=ref_edges(shape,cells,list(b))
        if E!=ref or lat.n_sites!=n: bad.append(('edges',shape,cells,b,sorted(E^ref)))
        J,h=0.7,-0.4
        H=transverse_ising(shape,cells,coupling=J,h=h,boundary_condition=list(b))
        Href=sum([-J*(qp.Z(i)@qp.Z(j)) for i,j in sorted(ref)],0*qp.Identity(0))+sum([-h*qp.X(i) for i in range(n)],0*qp.Identity(0)) if ref else None
        if n<=9 and ref:
            A=qp.matrix(H,wire_order=range(n)); B=qp.matrix(Href,wire_order=range(n))
            if not np.allclose(A,B): bad.append(('tfim',shape,cells,b))
            Hh=heisenberg(shape,cells,coupling=[0.3,0.5,0.7],boundary_condition=list(b))
            Bh=qp.matrix(sum([0.3*(qp.X(i)@qp.X(j))+0.5*(qp.Y(i)@qp.Y(j))+0.7*(qp.Z(i)@qp.Z(j)) for i,j in sorted(ref)],0*qp.Identity(0)),wire_order=range(n))
            if not np.allclose(qp.matrix(Hh,wire_order=range(n)),Bh): bad.append(('heis',shape,cells,b))
print("bad",len(bad)); print([str(x)[:300] for x in bad[:8]])
