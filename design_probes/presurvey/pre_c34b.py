import pennylane as qp, numpy as np, warnings
warnings.filterwarnings("ignore")
from pennylane import numpy as pnp
rng = np.random.default_rng(5)
def build(x, struct, nw):
    i=0
    for (k,w) in struct:
        if k=='RX': qp.RX(x[i],w[0]); i+=1
        elif k=='RY': qp.RY(x[i],w[0]); i+=1
        elif k=='RZ': qp.RZ(x[i],w[0]); i+=1
        elif k=='H': qp.Hadamard(w[0])
        elif k=='CNOT': qp.CNOT(w[:2])
        elif k=='CRY': qp.CRY(x[i],w[:2]); i+=1
        elif k=='XY': qp.IsingXY(x[i],w[:2]); i+=1
        elif k=='Rot': qp.Rot(x[i],x[i+1],x[i+2],w[0]); i+=3
        elif k=='CRot': qp.CRot(x[i],x[i+1],x[i+2],w[:2]); i+=3
        elif k=='U3': qp.U3(x[i],x[i+1],x[i+2],w[0]); i+=3
        elif k=='SE': qp.SingleExcitation(x[i],w[:2]); i+=1
        elif k=='DE': qp.DoubleExcitation(x[i], w[:4]); i+=1
        elif k=='PS': qp.PhaseShift(x[i], w[0]); i+=1
        elif k=='shared': qp.RX(x[0]*2+x[-1], w[0])
NP={'RX':1,'RY':1,'RZ':1,'H':0,'CNOT':0,'CRY':1,'XY':1,'Rot':3,'CRot':3,'U3':3,'SE':1,'DE':1,'PS':1,'shared':0}
stats={}; ex={}
for trial in range(60):
    nw=int(rng.integers(2,5)); kinds=['RX','RY','RZ','H','CNOT','CRY','XY','Rot','CRot','U3','SE','PS','shared']+(['DE'] if nw==4 else [])
    struct=[(kinds[int(rng.integers(0,len(kinds)))], [int(v) for v in rng.permutation(nw)]) for _ in range(int(rng.integers(2,7)))]
    npar=sum(NP[k] for k,_ in struct)
    if npar<2: continue
    x0=rng.uniform(-3,3,size=npar)
    mi=int(rng.integers(0,3))
    def ret():
        if mi==0: return qp.expval(qp.Z(0))
        if mi==1: return qp.expval(qp.Z(0)@qp.X(1))
        return qp.probs(wires=[0,1])
    def mk(diff, **kw):
        dev=qp.device('default.qubit', wires=nw+1)
        @qp.qnode(dev, diff_method=diff, **kw)
        def c(x):
            build(x, struct, nw); return ret()
        return c
    ref=None
    for diff,kw in [('backprop',{}),('parameter-shift',{}),('adjoint',{}),('hadamard',{'gradient_kwargs':{'aux_wire':nw}}),('finite-diff',{'gradient_kwargs':{'h':1e-6,'approx_order':2,'strategy':'center'}})]:
        if diff=='adjoint' and mi==2: continue
        key=diff
        stats.setdefault(key,[0,0,0])
        try:
            J=np.asarray(qp.jacobian(mk(diff,**kw))(pnp.array(x0, requires_grad=True)), dtype=float)
        except Exception as e:
            stats[key][2]+=1; ex.setdefault((key,'raise'),(repr(e)[:150], struct)); continue
        stats[key][0]+=1
        if ref is None: ref=J; continue
        if J.shape!=ref.shape or not np.allclose(J,ref,atol=2e-5):
            stats[key][1]+=1; ex.setdefault((key,'wrong'),(struct, np.round(ref,4).tolist(), np.round(J,4).tolist()))
print(stats)
for k,v in ex.items(): print(k, str(v)[:600])
