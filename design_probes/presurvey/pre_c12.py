import pennylane as qp, numpy as np, warnings, random
warnings.filterwarnings("ignore")
from pennylane.decomposition import gate_sets
from pennylane.exceptions import DecompositionError
rng=np.random.default_rng(12); random.seed(12)
def ang(): return float(rng.choice([rng.uniform(-3,3), np.pi, 0.0, np.pi/2]))
def gate(nw):
    w=[int(x) for x in rng.permutation(nw)]
    G=[lambda: qp.RX(ang(),w[0]), lambda: qp.Rot(ang(),ang(),ang(),w[0]), lambda: qp.U3(ang(),ang(),ang(),w[0]), lambda: qp.Hadamard(w[0]), lambda: qp.T(w[0]), lambda: qp.S(w[0]), lambda: qp.SX(w[0]), lambda: qp.PhaseShift(ang(),w[0]), lambda: qp.adjoint(qp.T(w[0])), lambda: qp.pow(qp.RZ(ang(),w[0]),3), lambda: qp.adjoint(qp.Rot(ang(),ang(),ang(),w[0]))]
    if nw>=2: G+=[lambda: qp.CNOT(w[:2]), lambda: qp.CZ(w[:2]), lambda: qp.CRX(ang(),w[:2]), lambda: qp.CRot(ang(),ang(),ang(),w[:2]), lambda: qp.IsingXX(ang(),w[:2]), lambda: qp.IsingXY(ang(),w[:2]), lambda: qp.SWAP(w[:2]), lambda: qp.ISWAP(w[:2]), lambda: qp.SingleExcitation(ang(),w[:2]), lambda: qp.ControlledPhaseShift(ang(),w[:2]), lambda: qp.ctrl(qp.RY(ang(),w[0]),control=w[1],control_values=[0]), lambda: qp.ctrl(qp.S(w[0]), control=w[1]), lambda: qp.PauliRot(ang(),'XZ',w[:2]), lambda: qp.CH(w[:2]), lambda: qp.CY(w[:2]), lambda: qp.PSWAP(ang(), w[:2]), lambda: qp.adjoint(qp.ISWAP(w[:2])), lambda: qp.pow(qp.CNOT(w[:2]), 2)]
    if nw>=3: G+=[lambda: qp.Toffoli(w[:3]), lambda: qp.CCZ(w[:3]), lambda: qp.CSWAP(w[:3]), lambda: qp.MultiControlledX(wires=w[:3],control_values=[0,1]), lambda: qp.ctrl(qp.IsingXX(ang(),w[:2]),control=w[2]), lambda: qp.MultiRZ(ang(),w[:3]), lambda: qp.ctrl(qp.Rot(ang(),ang(),ang(),w[0]), control=w[1:3]), lambda: qp.QFT(w[:3]), lambda: qp.adjoint(qp.QFT(w[:2]))]
    return G[int(rng.integers(0,len(G)))]()
sets={'rot+cnot': gate_sets.ROTATIONS_PLUS_CNOT, 'cliff+T+rz': set(gate_sets.CLIFFORD_T)|{'RZ'} if hasattr(gate_sets,'CLIFFORD_T') else None, 'rz rx cnot':{'RZ','RX','CNOT','GlobalPhase'}, 'rz ry cz':{'RZ','RY','CZ','GlobalPhase'}, 'h t cnot rz':{'Hadamard','T','CNOT','RZ','GlobalPhase'}, 'rot cnot': {'Rot','CNOT','GlobalPhase'}, 'xx rz ry': {'IsingXX','RZ','RY','GlobalPhase'}}
print([k for k in dir(gate_sets) if k.isupper()])
sets={k:v for k,v in sets.items() if v is not None}
def names_ok(tape, gs):
    allowed={getattr(g,'__name__',g) for g in gs}
    return [o.name for o in tape.operations if o.name not in allowed]
def eq_exact(A,B): return np.allclose(A,B,atol=1e-7)
stats={}; ex={}
for graph in (False, True):
    (qp.decomposition.enable_graph if graph else qp.decomposition.disable_graph)()
    for trial in range(120):
        nw=int(rng.integers(1,4)); ops=[gate(nw) for _ in range(int(rng.integers(1,5)))]
        tape=qp.tape.QuantumScript(ops,[qp.expval(qp.Z(0))]); U0=qp.matrix(tape,wire_order=list(range(nw)))
        for sname,gs in sets.items():
            key=(graph,sname); st=stats.setdefault(key,[0,0,0,0])
            try:
                (out,),_=qp.transforms.decompose(qp.tape.QuantumScript(list(ops),[qp.expval(qp.Z(0))]), gate_set=gs)
            except DecompositionError as e: st[3]+=1; continue
            except Exception as e: st[2]+=1; ex.setdefault((key,'raise'),(repr(e)[:150],[str(o) for o in ops])); continue
            st[0]+=1
            left=names_ok(out,gs)
            U1=qp.matrix(out,wire_order=list(range(nw)))
            if left: st[1]+=1; ex.setdefault((key,'notinset'),(left,[str(o) for o in ops]))
            elif not eq_exact(U1,U0):
                st[1]+=1; ph=np.allclose(abs(np.trace(U0.conj().T@U1)),2**nw,atol=1e-6); ex.setdefault((key,'wrong', 'phase-only' if ph else 'WRONG'),([str(o) for o in ops],[str(o) for o in out.operations][:12]))
qp.decomposition.disable_graph()
for k,v in stats.items(): print(k,v)
for k,v in ex.items(): print(k, str(v)[:500])
