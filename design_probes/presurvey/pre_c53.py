import pennylane as qp, numpy as np, warnings, random
warnings.filterwarnings("ignore")
from pennylane.fermi import FermiWord, FermiSentence
random.seed(4); rng=np.random.default_rng(4)
N=4
def fw(): 
    L=random.randint(0,3); return FermiWord({(i, random.randrange(N)): random.choice('+-') for i in range(L)})
def fs(): return FermiSentence({fw(): complex(rng.normal(), rng.normal()) for _ in range(random.randint(1,3))})
def M(op): 
    ps = op if hasattr(op,'to_mat') else qp.pauli.pauli_sentence(op)
    if len(ps)==0: return np.zeros((2**N,2**N),dtype=complex)
    return ps.to_mat(wire_order=list(range(N)))
maps={'jw': lambda f: qp.jordan_wigner(f, ps=True), 'parity': lambda f: qp.parity_transform(f, N, ps=True), 'bk': lambda f: qp.bravyi_kitaev(f, N, ps=True)}
bad=[]
for name,mp in maps.items():
    # CAR
    A=[M(mp(FermiWord({(0,i):'-'}))) for i in range(N)]; Ad=[M(mp(FermiWord({(0,i):'+'}))) for i in range(N)]
    for i in range(N):
        if not np.allclose(Ad[i], A[i].conj().T): bad.append((name,'adjoint',i))
        for j in range(N):
            if not np.allclose(A[i]@Ad[j]+Ad[j]@A[i], np.eye(2**N)*(i==j)): bad.append((name,'CAR a a+',i,j))
            if not np.allclose(A[i]@A[j]+A[j]@A[i], 0): bad.append((name,'CAR a a',i,j))
    for t in range(150):
        a,b=fs(),fs()
        try:
            if not np.allclose(M(mp(a*b)), M(mp(a))@M(mp(b)), atol=1e-9): bad.append((name,'prod',dict(a),dict(b)))
            if not np.allclose(M(mp(a+b)), M(mp(a))+M(mp(b)), atol=1e-9): bad.append((name,'sum'))
            if not np.allclose(M(mp(a.adjoint())), M(mp(a)).conj().T, atol=1e-9): bad.append((name,'adj'))
            no = qp.fermi.normal_order(a) if hasattr(qp.fermi,'normal_order') else None
        except Exception as e:
            bad.append((name,'raise',repr(e)[:100]))
from collections import Counter
print("bad", len(bad), Counter((b[0],b[1]) for b in bad)); print([str(b)[:300] for b in bad[:3]])
