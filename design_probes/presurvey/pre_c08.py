import pennylane as qp, numpy as np, warnings, itertools
warnings.filterwarnings("ignore")
rng = np.random.default_rng(0)
def r(): return float(rng.uniform(0.3, 2.8))
kinds = {
 'X': lambda w: qp.X(w[0]), 'Y': lambda w: qp.Y(w[0]), 'Z': lambda w: qp.Z(w[0]), 'H': lambda w: qp.Hadamard(w[0]),
 'S': lambda w: qp.S(w[0]), 'T': lambda w: qp.T(w[0]), 'SX': lambda w: qp.SX(w[0]),
 'RX': lambda w: qp.RX(r(), w[0]), 'RY': lambda w: qp.RY(r(), w[0]), 'RZ': lambda w: qp.RZ(r(), w[0]),
 'PhaseShift': lambda w: qp.PhaseShift(r(), w[0]), 'U1': lambda w: qp.U1(r(), w[0]), 'U2': lambda w: qp.U2(r(), r(), w[0]),
 'U3': lambda w: qp.U3(r(), r(), r(), w[0]), 'Rot': lambda w: qp.Rot(r(), r(), r(), w[0]),
 'CNOT': lambda w: qp.CNOT(w[:2]), 'CZ': lambda w: qp.CZ(w[:2]), 'CY': lambda w: qp.CY(w[:2]), 'CH': lambda w: qp.CH(w[:2]),
 'SWAP': lambda w: qp.SWAP(w[:2]), 'ISWAP': lambda w: qp.ISWAP(w[:2]), 'SISWAP': lambda w: qp.SISWAP(w[:2]),
 'CRX': lambda w: qp.CRX(r(), w[:2]), 'CRY': lambda w: qp.CRY(r(), w[:2]), 'CRZ': lambda w: qp.CRZ(r(), w[:2]), 'CRot': lambda w: qp.CRot(r(), r(), r(), w[:2]),
 'CPhase': lambda w: qp.ControlledPhaseShift(r(), w[:2]),
 'IsingXX': lambda w: qp.IsingXX(r(), w[:2]), 'IsingYY': lambda w: qp.IsingYY(r(), w[:2]), 'IsingZZ': lambda w: qp.IsingZZ(r(), w[:2]), 'IsingXY': lambda w: qp.IsingXY(r(), w[:2]),
 'MultiRZ': lambda w: qp.MultiRZ(r(), w[:2]), 'Toffoli': lambda w: qp.Toffoli(w[:3]), 'CSWAP': lambda w: qp.CSWAP(w[:3]), 'CCZ': lambda w: qp.CCZ(w[:3]),
 'MCX': lambda w: qp.MultiControlledX(wires=w[:3], control_values=[1,0]),
 'ctrl2RX': lambda w: qp.ctrl(qp.RX(r(), w[2]), control=w[:2]), 'ctrlS': lambda w: qp.ctrl(qp.S(w[1]), control=w[0]),
 'prodXZ': lambda w: qp.prod(qp.X(w[0]), qp.Z(w[1])), 'sumXY': lambda w: qp.sum(qp.X(w[0]), qp.Y(w[1])), 'sprodZ': lambda w: qp.s_prod(0.7, qp.Z(w[0])),
 'SingleExc': lambda w: qp.SingleExcitation(r(), w[:2]), 'PSWAP': lambda w: qp.PSWAP(r(), w[:2]),
 'adjS': lambda w: qp.adjoint(qp.S(w[0])), 'powRZ': lambda w: qp.pow(qp.RZ(r(), w[0]), 2), 'Barrier': lambda w: qp.Barrier(w[:2]),
}
nw = {k: len(f([0,1,2]).wires) for k, f in kinds.items()}
wires = [0,1,2,3]
bad = []; n = 0; errs = {}
for (k1, f1), (k2, f2) in itertools.product(kinds.items(), repeat=2):
    for w1 in itertools.permutations(wires[:3], nw[k1]):
        for w2 in itertools.permutations(wires, nw[k2]):
            if not set(w1) & set(w2): continue
            a, b = f1(list(w1)+[9,9]), f2(list(w2)+[9,9])
            try:
                v = qp.is_commuting(a, b)
            except Exception as e:
                errs[(k1,k2)] = repr(e)[:60]; continue
            n += 1
            if v:
                wo = sorted(set(w1)|set(w2))
                try:
                    A, B = qp.matrix(a, wire_order=wo), qp.matrix(b, wire_order=wo)
                except Exception as e:
                    errs[(k1,k2)] = 'matrix:'+repr(e)[:50]; continue
                if not np.allclose(A@B, B@A):
                    bad.append((k1, w1, k2, w2))
print("pairs checked", n, "errors", len(errs), list(errs.items())[:6])
print("UNSOUND:", len(bad)); 
seen=set()
for b_ in bad:
    key=(b_[0],b_[2])
    if key not in seen: seen.add(key); print("  ", b_)
