import pennylane as qp, numpy as np, warnings, itertools, inspect
warnings.filterwarnings("ignore")
dev = qp.device('default.qubit')
def run(op_builder, regs, inputs, all_wires):
    """regs: dict name->wires; inputs: dict name->int. returns dict name->int output (asserting basis state)"""
    ops=[]
    for name,ws in regs.items():
        v=inputs.get(name,0)
        if ws: ops.append(qp.BasisState(np.array([int(b) for b in np.binary_repr(v, len(ws))]), wires=ws))
    ops.append(op_builder())
    t=qp.tape.QuantumScript(ops,[qp.probs(wires=all_wires)])
    p=qp.execute([t],dev)[0]; i=int(np.argmax(p))
    if p[i]<1-1e-8: return None
    bits=np.binary_repr(i,len(all_wires)); out={}
    for name,ws in regs.items():
        out[name]=int("".join(bits[all_wires.index(w)] for w in ws),2) if ws else 0
    return out
bad=[]; done={}
def check(label, builder, regs, spec, domain):
    allw=[w for ws in regs.values() for w in ws]; n=0
    for vals in domain:
        inp=dict(zip([k for k in regs if k!='work'], vals))
        try: out=run(builder, regs, inp, allw)
        except Exception as e: bad.append((label,'raise',repr(e)[:100])); return
        exp=spec(inp); n+=1
        if out is None or any(out[k]!=exp.get(k,inp.get(k,0)) for k in regs): bad.append((label,inp,out,exp)); 
    done[label]=n
# SemiAdder
for nx_,ny in ((2,2),(3,3),(2,3),(3,2)):
    x=list(range(nx_)); y=list(range(nx_,nx_+ny)); w=list(range(nx_+ny, nx_+ny+max(ny-1,1)))
    check(f"SemiAdder{nx_},{ny}", lambda: qp.SemiAdder(x,y,work_wires=w), dict(x=x,y=y,work=w), lambda i: dict(x=i['x'], y=(i['x']+i['y'])%2**ny, work=0), itertools.product(range(2**nx_),range(2**ny)))
# Adder k mod
for n_,mod in ((3,8),(3,5),(3,7),(2,3)):
    for k in range(0,mod+2):
        x=list(range(n_)); w=[n_,n_+1]
        check(f"Adder n{n_} mod{mod} k{k}", lambda: qp.Adder(k,x,mod=mod,work_wires=w), dict(x=x,work=w), lambda i: dict(x=(i['x']+k)%mod if i['x']<mod else None, work=0), [(v,) for v in range(mod)])
# OutAdder
x=[0,1]; y=[2,3]; o=[4,5,6]; w=[7,8]
for mod in (8,5,7):
    check(f"OutAdder mod{mod}", lambda: qp.OutAdder(x,y,o,mod=mod,work_wires=w), dict(x=x,y=y,o=o,work=w), lambda i: dict(o=(i['o']+i['x']+i['y'])%mod, work=0), [(a,b,c) for a in range(4) for b in range(4) for c in range(mod)])
# Multiplier
for mod,k in ((8,3),(7,3),(5,2),(7,6)):
    x=[0,1,2]; w=[3,4,5,6,7]
    check(f"Multiplier mod{mod} k{k}", lambda: qp.Multiplier(k,x,mod=mod,work_wires=w), dict(x=x,work=w), lambda i: dict(x=(i['x']*k)%mod, work=0), [(v,) for v in range(mod)])
# OutMultiplier
x=[0,1]; y=[2,3]; o=[4,5,6]; w=[7,8]
for mod in (8,7,5):
    check(f"OutMultiplier mod{mod}", lambda: qp.OutMultiplier(x,y,o,mod=mod,work_wires=w), dict(x=x,y=y,o=o,work=w), lambda i: dict(o=(i['o']+i['x']*i['y'])%mod, work=0), [(a,b,c) for a in range(4) for b in range(4) for c in range(mod)])
# IntegerComparator
for val in range(0,9):
    for geq in (True,False):
        x=[0,1,2]; t=[3]
        check(f"IntComp v{val} geq{geq}", lambda: qp.IntegerComparator(val, geq=geq, wires=x+t), dict(x=x,t=t), lambda i: dict(t=i['t']^int((i['x']>=val) if geq else (i['x']<val))), [(a,b) for a in range(8) for b in range(2)])
# ModExp
x=[0,1]; o=[2,3,4]; w=[5,6,7,8,9]
for base,mod in ((2,7),(3,7),(3,5),(5,8)):
    check(f"ModExp b{base} m{mod}", lambda: qp.ModExp(x,o,base,mod,w), dict(x=x,o=o,work=w), lambda i: dict(o=(i['o']*base**i['x'])%mod, work=0), [(a,b) for a in range(4) for b in range(1,mod)])
# QubitSum / QubitCarry / TemporaryAND
check("QubitSum", lambda: qp.QubitSum([0,1,2]), dict(a=[0],b=[1],c=[2]), lambda i: dict(c=i['a']^i['b']^i['c']), itertools.product(range(2),repeat=3))
check("QubitCarry", lambda: qp.QubitCarry([0,1,2,3]), dict(a=[0],b=[1],c=[2],d=[3]), lambda i: dict(c=i['b']^i['c'], d=i['d']^((i['a']&i['b'])^(i['b']&i['c'])^(i['a']&i['c']))), itertools.product(range(2),repeat=4))
for cv in ((1,1),(0,1),(1,0),(0,0)):
    check(f"TemporaryAND{cv}", lambda: qp.TemporaryAND([0,1,2], control_values=cv), dict(a=[0],b=[1],t=[2]), lambda i: dict(t=int(i['a']==cv[0] and i['b']==cv[1])), [(a,b,0) for a in range(2) for b in range(2)])
print("done", len(done), "labels; bad", len(bad))
for b in bad[:12]: print("  ", b)
