import numpy as np, itertools, warnings
warnings.filterwarnings("ignore")
from pennylane.math.binary_linalg import *
def rank_ref(M):
    r,c=M.shape; rows={0}
    S={0}
    vecs=[int("".join(map(str,row)),2) if c>0 else 0 for row in M]
    span={0}
    for v in vecs: span|={s^v for s in span}
    return int(np.log2(len(span)))
bad=[];n=0
for r,c in itertools.product(range(1,4),range(1,5)):
    for bits in itertools.product([0,1],repeat=r*c):
        M=np.array(bits,dtype=int).reshape(r,c); n+=1
        rk=binary_matrix_rank(M)
        if rk!=rank_ref(M): bad.append(('rank',M.tolist(),rk))
        R=binary_finite_reduced_row_echelon(M)
        # rref: check form + same row space
        if rank_ref(np.vstack([M,R]))!=rank_ref(M) or rank_ref(R)!=rank_ref(M): bad.append(('rref space',M.tolist()))
        piv=[]
        ok=True; last=-1; zero_seen=False
        for row in R:
            nz=np.nonzero(row)[0]
            if len(nz)==0: zero_seen=True; continue
            if zero_seen or nz[0]<=last: ok=False
            last=nz[0]; piv.append(nz[0])
        for j in piv:
            if R[:,j].sum()!=1: ok=False
        if not ok: bad.append(('rref form',M.tolist(),R.tolist()))
        if r==c:
            for bb in itertools.product([0,1],repeat=r):
                b=np.array(bb,dtype=int)
                try:
                    x=binary_solve_linear_system(M,b)
                    if not np.array_equal((M@x)%2,b) or rank_ref(M)<r: bad.append(('solve',M.tolist(),bb))
                except np.linalg.LinAlgError:
                    if rank_ref(M)==r: bad.append(('solve raised on regular',M.tolist()))
print(n,"matrices bad",len(bad)); print(bad[:5])
