import pennylane as qp, numpy as np, warnings, random
warnings.filterwarnings("ignore")
from pennylane.gradients.vjp import compute_vjp_single, compute_vjp_multi
from pennylane.gradients.jvp import compute_jvp_single, compute_jvp_multi
rng=np.random.default_rng(1); bad=[]
def z(a): return a*0
for t in range(600):
    P=int(rng.integers(1,4))
    shapes=[(), (3,), (2,2)]
    zero=rng.random()<0.2
    # single measurement
    sh=shapes[int(rng.integers(0,3))]
    jac=tuple(rng.normal(size=sh) for _ in range(P)) if P>1 else rng.normal(size=sh)
    J=np.stack([np.asarray(j).reshape(-1) for j in (jac if P>1 else [jac])], axis=-1)  # (out, P)
    dy=rng.normal(size=sh); 
    if zero: dy=z(dy)
    try:
        v=compute_vjp_single(dy, jac, num=int(np.prod(sh)) if sh else None)
        ref=np.asarray(dy).reshape(-1)@J
        if not np.allclose(np.asarray(v,dtype=float).reshape(-1), ref): bad.append(('vjp_single',sh,P,zero))
    except Exception as e: bad.append(('vjp_single raise',sh,P,repr(e)[:80]))
    tang=rng.normal(size=P); 
    if zero: tang=z(tang)
    try:
        jv=compute_jvp_single(tang, jac)
        ref=(J@tang).reshape(sh)
        if not np.allclose(np.asarray(jv,dtype=float), ref): bad.append(('jvp_single',sh,P,zero))
    except Exception as e: bad.append(('jvp_single raise',sh,P,repr(e)[:80]))
    # multi measurement
    M=int(rng.integers(2,4)); shs=[shapes[int(rng.integers(0,3))] for _ in range(M)]
    jacs=tuple((tuple(rng.normal(size=s) for _ in range(P)) if P>1 else rng.normal(size=s)) for s in shs)
    dys=tuple(rng.normal(size=s) for s in shs)
    if zero: dys=tuple(z(d) for d in dys)
    try:
        v=compute_vjp_multi(dys, jacs)
        ref=sum(np.asarray(d).reshape(-1)@np.stack([np.asarray(j).reshape(-1) for j in (jc if P>1 else [jc])],axis=-1) for d,jc in zip(dys,jacs))
        if not np.allclose(np.asarray(v,dtype=float).reshape(-1), ref): bad.append(('vjp_multi',shs,P,zero))
    except Exception as e: bad.append(('vjp_multi raise',shs,P,repr(e)[:80]))
    try:
        jv=compute_jvp_multi(tang, jacs)
        for o,jc,s in zip(jv,jacs,shs):
            Jm=np.stack([np.asarray(j).reshape(-1) for j in (jc if P>1 else [jc])],axis=-1)
            if not np.allclose(np.asarray(o,dtype=float), (Jm@tang).reshape(s)): bad.append(('jvp_multi',shs,P,zero)); break
    except Exception as e: bad.append(('jvp_multi raise',shs,P,repr(e)[:80]))
from collections import Counter
print("bad",len(bad),Counter(b[0] for b in bad)); print([str(b)[:200] for b in bad[:6]])
