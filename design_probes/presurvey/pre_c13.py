import pennylane as qp, numpy as np, warnings, itertools, re
warnings.filterwarnings("ignore")
from pennylane.decomposition import decomposition_rule as dr
from pennylane.transforms.decompose import _get_decomp_args
rng=np.random.default_rng(5)
reg = dr._decompositions_private
P={'I':np.eye(2),'X':np.array([[0,1],[1,0]],dtype=complex),'Y':np.array([[0,-1j],[1j,0]]),'Z':np.diag([1.,-1]).astype(complex)}
def kronop(mats_by_wire, order):
    M=np.eye(1)
    for w in order: M=np.kron(M, mats_by_wire.get(w, np.eye(2)))
    return M
def run_branch(emitted, target_wires, psi_t, outcomes):
    """returns (final state vector over order, order, aux wires) or None if branch amplitude 0"""
    aux=[]; 
    for o in emitted:
        if o.name=='Allocate': aux+=list(o.wires)
    order=list(target_wires)+aux
    # initial aux states
    st=psi_t.copy()
    for o in emitted:
        if o.name=='Allocate':
            for w in o.wires:
                s=o.hyperparameters['state']; v={'zero':np.array([1,0]),'any':np.array([1,0])}.get(getattr(s,'value',str(s)), None)
                if v is None: raise NotImplementedError(str(s))
                st=np.kron(st, v)
    it=iter(outcomes); mvals={}
    for o in emitted:
        nm=o.name
        if nm in ('Allocate','Deallocate'): continue
        if nm=='PauliMeasure':
            m=next(it); word=o.hyperparameters['pauli_word']; Pm=kronop({w:P[c] for w,c in zip(o.wires,word)}, order)
            st=0.5*(np.eye(len(st))+(-1)**m*Pm)@st; mvals[o.hyperparameters.get('meas_uid', id(o))]=m; mvals[id(o)]=m; o._m=m
            continue
        if nm in ('MidMeasureMP','MidMeasure'):
            m=next(it); Pm=kronop({o.wires[0]:P['Z']}, order); st=0.5*(np.eye(len(st))+(-1)**m*Pm)@st; o._m=m
            if getattr(o,'reset',False) and m==1: st=kronop({o.wires[0]:P['X']},order)@st
            continue
        if type(o).__name__=='Conditional':
            mv=o.meas_val; vals=[getattr(mp,'_m') for mp in mv.measurements]
            cond=mv.processing_fn(*vals)
            if cond:
                b=o.base
                st=(qp.matrix(b, wire_order=order) if len(b.wires)>0 else qp.matrix(b)[0,0]*np.eye(len(st)))@st
            continue
        st=(qp.matrix(o, wire_order=order) if len(o.wires)>0 else qp.matrix(o)[0,0]*np.eye(len(st)))@st
    return st, order, aux
found=0; bad=[]; okc=0
for name in sorted(reg.keys(), key=str):
    nm=str(name)
    if '(' in nm: continue
    cls=getattr(qp,nm,None)
    if cls is None or not isinstance(getattr(cls,'num_wires',None),int) or cls.num_wires>3: continue
    npar=cls.num_params if isinstance(getattr(cls,'num_params',None),int) else None
    if npar is None: continue
    try: op=cls(*rng.uniform(-3,3,size=npar), wires=list(range(cls.num_wires)))
    except Exception: continue
    for rule in qp.list_decomps(op):
        rp,args_,kwargs_=_get_decomp_args(op)
        try:
            if not rule.is_applicable(**rp): continue
            with qp.queuing.AnnotatedQueue() as q: rule(*args_, **kwargs_)
        except Exception as e: continue
        em=list(q.queue)
        if not any(o.name in ('PauliMeasure','MidMeasureMP','MidMeasure') for o in em): continue
        found+=1; k=sum(1 for o in em if o.name in ('PauliMeasure','MidMeasureMP','MidMeasure'))
        U=qp.matrix(op); n=len(op.wires)
        rname=str(rule).strip().splitlines()[0][:60]+" ... "+[l for l in str(rule).splitlines() if l.startswith('def ')][0][:60]
        for trial in range(3):
            psi=rng.normal(size=2**n)+1j*rng.normal(size=2**n); psi/=np.linalg.norm(psi); tgt=U@psi
            auxstates={}
            for outs in itertools.product([0,1],repeat=k):
                try: st,order,aux=run_branch(em, list(op.wires), psi, outs)
                except Exception as e: bad.append((nm,rname,'interp raise',repr(e)[:100])); break
                nrm=np.linalg.norm(st)
                if nrm<1e-9: continue
                T=st.reshape(2**n, -1)/nrm
                # must be tgt ⊗ a for some aux vector a
                a=tgt.conj()@T  # projection
                rec=np.outer(tgt,a)
                if not np.allclose(rec,T,atol=1e-7): bad.append((nm,rname,'branch wrong',outs)); continue
                okc+=1; auxstates[outs]=np.round(a/np.linalg.norm(a)*np.exp(-1j*np.angle(a[np.argmax(np.abs(a))])),6)
            # aux end state should be branch independent up to phase ("known state")
            if len({tuple(np.round(np.abs(v),5)) for v in auxstates.values()})>1: bad.append((nm,rname,'aux state varies',{k_:v.tolist() for k_,v in list(auxstates.items())[:3]}))
print("mcm rules found",found,"branches ok",okc,"bad",len(bad))
seen=set()
for b in bad:
    if b[:3] not in seen: seen.add(b[:3]); print("  ",str(b)[:400])
