import pennylane as qp, numpy as np, warnings, itertools, random
warnings.filterwarnings("ignore")
from pennylane.pauli import PauliWord, PauliSentence, pauli_sentence, pauli_decompose
rng=np.random.default_rng(2); random.seed(2)
W=[0,1,'a','b']
def pw(): 
    ws=random.sample(W, random.randint(0,3)); return PauliWord({w: random.choice('XYZ') for w in ws})
def ps(): return PauliSentence({pw(): complex(rng.normal(), rng.normal()) for _ in range(random.randint(0,4))})
def mat(p, wo): 
    if isinstance(p, PauliWord): p=PauliSentence({p:1.0})
    M=np.zeros((2**len(wo),)*2, dtype=complex)
    for w,c in p.items():
        m=np.eye(1)
        for q in wo: m=np.kron(m, {'I':np.eye(2),'X':np.array([[0,1],[1,0]]),'Y':np.array([[0,-1j],[1j,0]]),'Z':np.diag([1,-1])}[w.get(q,'I')])
        M=M+c*m
    return M
bad=[]
for t in range(400):
    wo=random.sample(W,4)
    a,b=ps(),ps(); A,B=mat(a,wo),mat(b,wo)
    def chk(name, obj, ref):
        try:
            M=obj.to_mat(wire_order=wo) if len(obj)>0 or True else None
        except Exception as e:
            bad.append((name,'raise',repr(e)[:80])); return
        if not np.allclose(M, ref, atol=1e-9): bad.append((name, dict(a), dict(b)))
    chk('self', a, A)
    chk('mul', a@b, A@B); chk('add', a+b, A+B); chk('smul', 1.7j*a, 1.7j*A); chk('sub', a-b, A-B)
    chk('comm', a.commutator(b), A@B-B@A)
    for fmt,buf in (('csr',None),('csr',2**10)):
        try:
            S=a.to_mat(wire_order=wo, format=fmt, buffer_size=buf) if buf else a.to_mat(wire_order=wo, format=fmt)
            if not np.allclose(S.toarray(), A): bad.append(('sparse',fmt,buf))
        except Exception as e: bad.append(('sparse raise', repr(e)[:80]))
    if len(a)>0:
        op=a.operation(wire_order=wo)
        if not np.allclose(qp.matrix(op, wire_order=wo), A): bad.append(('operation', dict(a)))
        back=pauli_sentence(op); back.simplify(); a2=PauliSentence(dict(a)); a2.simplify()
        if not np.allclose(mat(back,wo), A): bad.append(('pauli_sentence rt', dict(a)))
    # trace
    try:
        tr=a.trace() if hasattr(a,'trace') else None
    except Exception as e: tr=None
    # pauli_decompose of random matrix
    n=2; H=rng.normal(size=(4,4))+1j*rng.normal(size=(4,4))
    d=pauli_decompose(H, pauli=True, check_hermitian=False, wire_order=wo[:2])
    if not np.allclose(mat(d, wo[:2]), H): bad.append(('pauli_decompose',))
    x,y=pw(),pw()
    r=x@y
    prod_ps = PauliSentence({r[0]: r[1]}) if isinstance(r, tuple) else r
    if not np.allclose(mat(prod_ps,wo), mat(x,wo)@mat(y,wo)): bad.append(('word mul', dict(x), dict(y)))
from collections import Counter
print("bad", len(bad), Counter(b[0] for b in bad)); print([str(b)[:200] for b in bad[:4]])
