import pennylane as qp, numpy as np, warnings, itertools, networkx as nx, rustworkx as rx
warnings.filterwarnings("ignore")
from pennylane import qaoa
def diag_of(H, nodes):
    M = qp.matrix(H, wire_order=nodes); assert np.allclose(M, np.diag(np.diag(M))); return np.real(np.diag(M))
bad=[]; cnt=0
for n in (2,3,4):
    nodes=list(range(n)); pairs=list(itertools.combinations(nodes,2))
    for mask in range(1,2**len(pairs)):
        E=[pairs[i] for i in range(len(pairs)) if mask>>i&1]
        g=nx.Graph(); g.add_nodes_from(nodes); g.add_edges_from(E)
        gc=nx.complement(g); Ec=list(gc.edges)
        forms={
         ('maxcut',None): lambda z: 0.5*sum(z[i]*z[j]-1 for i,j in E),
         ('max_independent_set',True): lambda z: sum(z),
         ('max_independent_set',False): lambda z: 3*sum(z[i]*z[j]-z[i]-z[j] for i,j in E)+sum(z),
         ('min_vertex_cover',True): lambda z: -sum(z),
         ('min_vertex_cover',False): lambda z: 3*sum(z[i]*z[j]+z[i]+z[j] for i,j in E)-sum(z),
         ('max_clique',True): lambda z: sum(z),
         ('max_clique',False): lambda z: 3*sum(z[i]*z[j]-z[i]-z[j] for i,j in Ec)+sum(z),
        }
        for (name,c),f in forms.items():
            for G in (g,):
                H,_=getattr(qaoa,name)(G) if c is None else getattr(qaoa,name)(G,constrained=c)
                d=diag_of(H,nodes); cnt+=1
                for b in range(2**n):
                    z=[1-2*((b>>(n-1-i))&1) for i in range(n)]
                    if abs(d[b]-f(z))>1e-9: bad.append((name,c,n,E,b,d[b],f(z))); break
print("checked",cnt,"bad",len(bad)); print(bad[:5])
# edge_driver / bit_driver
for rew in (["00"],["11"],["01","10"],["00","11"],["10","01","00"],["11","10","01"]):
    g=nx.path_graph(3); H=qaoa.edge_driver(g, rew); d=diag_of(H,[0,1,2])
    # documented: reward states get lower energy; check that argmin set == bitstrings where every edge is in rewarded set (if nonempty)
    vals={}
    for b in range(8):
        bits=[(b>>(2-i))&1 for i in range(3)]
        nrew=sum(1 for (u,v) in g.edges if f"{bits[u]}{bits[v]}" in rew or (f"{bits[v]}{bits[u]}" in rew and rew!=["01"] and rew!=["10"]))
        vals.setdefault(nrew,set()).add(round(d[b],9))
    print("  edge_driver",rew,{k:sorted(v) for k,v in vals.items()})
