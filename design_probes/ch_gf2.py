import numpy as np
from pennylane.math.binary_linalg import binary_finite_reduced_row_echelon, binary_solve_linear_system, binary_matrix_rank

def solve_ok(a:int,b:int,c:int,d:int,e:int,f:int) -> bool:
    """
    pre: 0<=a<=1 and 0<=b<=1 and 0<=c<=1 and 0<=d<=1 and 0<=e<=1 and 0<=f<=1
    post: _
    """
    A = np.array([[a,b],[c,d]], dtype=object); rhs = np.array([e,f], dtype=object)
    try:
        x = binary_solve_linear_system(A, rhs)
    except np.linalg.LinAlgError:
        return (a*d - b*c) % 2 == 0
    return (a*x[0]+b*x[1])%2 == e and (c*x[0]+d*x[1])%2 == f and (a*d - b*c) % 2 == 1

def rank_ok(a:int,b:int,c:int,d:int) -> bool:
    """
    pre: 0<=a<=1 and 0<=b<=1 and 0<=c<=1 and 0<=d<=1
    post: _
    """
    A = np.array([[a,b],[c,d]], dtype=object)
    r = binary_matrix_rank(A)
    det = (a*d - b*c) % 2
    exp = 2 if det == 1 else (0 if a+b+c+d == 0 else 1)
    return r == exp
