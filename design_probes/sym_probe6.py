import sys, time, traceback
exec(open('/verif/design_probes/sym_probe4c.py').read().split('def t1():')[0])
import pennylane.math as pm
def is_sym(x):
    return isinstance(x, S) or (isinstance(x, np.ndarray) and x.dtype == object)
_orig_abs = pm.is_abstract
def _is_abs(x, like=None):
    if is_sym(x): return True
    return _orig_abs(x, like=like) if like else _orig_abs(x)
import pennylane.math.utils as pmu
for mod in (pm, pmu):
    if hasattr(mod, 'is_abstract'): setattr(mod, 'is_abstract', _is_abs)

_orig_allclose = pm.allclose
def _allclose(a_, b_, *args, **kw):
    if is_sym(a_) or is_sym(b_): return False
    return _orig_allclose(a_, b_, *args, **kw)
import pennylane.math.multi_dispatch as pmd
for mod in (pm, pmd):
    if hasattr(mod, 'allclose'): setattr(mod, 'allclose', _allclose)
def t_merge():
    tape = qp.tape.QuantumScript([qp.RX(a,0), qp.RX(b,0), qp.CNOT([0,1]), qp.RZ(c,1), qp.RZ(a,1), qp.Hadamard(0), qp.Hadamard(0), qp.CRX(a,[0,1]), qp.CRX(b,[0,1])], [qp.state()])
    (out,), _ = qp.transforms.merge_rotations(tape)
    print("  merged:", [o.name for o in out.operations])
    (out2,), _ = qp.transforms.cancel_inverses(out)
    print("  cancelled:", [o.name for o in out2.operations])
    (out3,), _ = qp.transforms.commute_controlled(out2)
    print("  commuted:", [o.name for o in out3.operations])
    U0 = mat_of_ops(tape.operations, [0,1]); U1 = mat_of_ops(out3.operations, [0,1])
    check_eq(U0, U1, "compile chain preserves unitary")
trial("merge", t_merge)
