import sys, time, traceback
exec(open('/verif/design_probes/sym_probe4c.py').read().split('def t1():')[0])
import pennylane.math as pm
_orig_is_abs = pm.is_abstract
def exec_tapes(tapes):
    out = []
    for t in tapes:
        st, b = get_final_state(t)
        r = measure_final_state(t, st, b)
        out.append(r)
    return tuple(out)

def t_ps():
    tape = qp.tape.QuantumScript([qp.Hadamard(0), qp.RX(a, 0), qp.CNOT([0,1]), qp.RY(b, 1)], [qp.expval(qp.Z(0)@qp.Z(1))])
    tape.trainable_params = [0,1]
    tapes, fn = qp.gradients.param_shift(tape)
    print("  n shifted tapes", len(tapes), [t.operations[1].data for t in tapes][:2])
    res = exec_tapes(tapes)
    g = fn(res)
    print("  grad:", type(g), g)
trial("param_shift", t_ps)

def t_split():
    c1, c2 = np.array(S(z3.Real('k1')), dtype=object), np.array(S(z3.Real('k2')), dtype=object)
    H = qp.sum(qp.s_prod(c1, qp.X(0)@qp.Z(1)), qp.s_prod(c2, qp.Y(0)), qp.s_prod(0.5, qp.Identity(0)))
    print("   H:", H, "pauli_rep" , H.pauli_rep is not None)
    tape = qp.tape.QuantumScript([qp.Hadamard(0), qp.RX(a, 0), qp.CNOT([0,1])], [qp.expval(H), qp.expval(qp.Z(1))])
    tapes, fn = qp.transforms.split_non_commuting(tape)
    print("   split into", len(tapes), [t.measurements for t in tapes])
    res = exec_tapes(tapes)
    out = fn(res)
    print("   out:", out)
trial("split_non_commuting", t_split)

def t_opt():
    opt = qp.AdamOptimizer(stepsize=0.1)
    x = np.array([S(z3.Real('x0')), S(z3.Real('x1'))], dtype=object)
    g = (np.array([S(z3.Real('g0')), S(z3.Real('g1'))], dtype=object),)
    new = opt.apply_grad(g, (x,))
    print("   adam new", new)
trial("optimizer", t_opt)
def t_opt2():
    opt = qp.MomentumOptimizer(stepsize=0.1, momentum=0.9)
    x = np.array([S(z3.Real('x0')), S(z3.Real('x1'))], dtype=object)
    g = (np.array([S(z3.Real('g0')), S(z3.Real('g1'))], dtype=object),)
    new = opt.apply_grad(g, (x,)); new2 = opt.apply_grad(g, tuple(new))
    print("   momentum new", new2)
trial("optimizer2", t_opt2)
