import pennylane as qp, numpy as np
from collections import Counter
def names(ops, depth=0, out=None):
    out = Counter() if out is None else out
    prim = {"PauliX","CNOT","Toffoli","MultiControlledX","TemporaryAND","Adjoint(TemporaryAND)","CCZ","SWAP","CSWAP","Hadamard","PhaseShift","ControlledPhaseShift","RZ","QFT","Adjoint(QFT)","X","BasisState","Identity","GlobalPhase","CZ","S","T","Adjoint(S)","Adjoint(T)","MidMeasure","Conditional"}
    for op in ops:
        if op.name in prim or not op.has_decomposition or depth >= 4:
            out[op.name]+=1
        else:
            names(op.decomposition(), depth+1, out)
    return dict(out)
tests = {
 'SemiAdder': lambda: qp.SemiAdder([0,1,2],[3,4,5],work_wires=[6,7]),
 'Adder': lambda: qp.Adder(3, [0,1,2], mod=7, work_wires=[3,4]),
 'OutAdder': lambda: qp.OutAdder([0,1],[2,3],[4,5,6]),
 'OutMultiplier': lambda: qp.OutMultiplier([0,1],[2,3],[4,5,6,7]),
 'IntegerComparator': lambda: qp.IntegerComparator(3, geq=True, wires=[0,1,2,3]),
 'TemporaryAND': lambda: qp.TemporaryAND([0,1,2]),
 'QubitSum': lambda: qp.QubitSum([0,1,2]),
 'QubitCarry': lambda: qp.QubitCarry([0,1,2,3]),
}
import glob, os
print(sorted(os.path.basename(f) for f in glob.glob('/repo/pennylane/templates/subroutines/arithmetic/*.py')))
for k, f in tests.items():
    try:
        op = f(); print(k, names([op]))
    except Exception as e:
        print(k, "ERR", repr(e)[:150])
