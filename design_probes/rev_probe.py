"""E3 feasibility: SemiAdder for all basis inputs via z3 Bools (design-phase scratch)."""
import sys, time, z3, pennylane as qp
n = int(sys.argv[1]) if len(sys.argv) > 1 else 4
xw = list(range(n)); yw = list(range(n, 2*n)); ww = list(range(2*n, 3*n-1))
op = qp.SemiAdder(xw, yw, work_wires=ww)
def flatten(ops, depth=0):
    for o in ops:
        if o.name in ("PauliX","CNOT","Toffoli","TemporaryAND","Adjoint(TemporaryAND)","SWAP","MultiControlledX"):
            yield o
        else:
            assert depth < 6 and o.has_decomposition, o
            yield from flatten(o.decomposition(), depth+1)
gates = list(flatten([op]))
from collections import Counter; print(Counter(g.name for g in gates))
bits = {w: z3.Bool(f"q{w}") for w in xw+yw}
for w in ww: bits[w] = z3.BoolVal(False)
init = dict(bits); oblig = []
for g in gates:
    w = list(g.wires)
    if g.name == "PauliX": bits[w[0]] = z3.Not(bits[w[0]])
    elif g.name == "CNOT": bits[w[1]] = z3.Xor(bits[w[1]], bits[w[0]])
    elif g.name == "Toffoli": bits[w[2]] = z3.Xor(bits[w[2]], z3.And(bits[w[0]], bits[w[1]]))
    elif g.name == "TemporaryAND":
        cv = g.hyperparameters.get("control_values", (1,1))
        c = [bits[w[i]] if cv[i] else z3.Not(bits[w[i]]) for i in (0,1)]
        oblig.append(("target zero before elbow", z3.Not(bits[w[2]])))
        bits[w[2]] = z3.And(*c)
    elif g.name == "Adjoint(TemporaryAND)":
        cv = g.base.hyperparameters.get("control_values", (1,1))
        c = [bits[w[i]] if cv[i] else z3.Not(bits[w[i]]) for i in (0,1)]
        oblig.append(("target equals AND before un-elbow", bits[w[2]] == z3.And(*c)))
        bits[w[2]] = z3.BoolVal(False)
    else: raise NotImplementedError(g.name)
def bv(ws, env): # first wire = most significant
    return z3.Concat(*[z3.If(env[w], z3.BitVecVal(1,1), z3.BitVecVal(0,1)) for w in ws]) if len(ws) > 1 else z3.If(env[ws[0]], z3.BitVecVal(1,1), z3.BitVecVal(0,1))
spec = z3.And(bv(yw, bits) == bv(xw, init) + bv(yw, init), bv(xw, bits) == bv(xw, init), *[z3.Not(bits[w]) for w in ww], *[o for _, o in oblig])
s = z3.Solver(); s.add(z3.Not(spec)); t = time.time(); r = s.check()
print(f"n={n}: all 2^{2*n} inputs: {r} in {time.time()-t:.2f}s ; obligations from elbows: {len(oblig)}")
# planted mutant: drop one CNOT
