from typing import List, Tuple
import pennylane as qp
from pennylane.transforms.resolve_dynamic_wires import _WireManager
from pennylane.allocation import AllocateState
from pennylane.exceptions import AllocationError

def loop_sem(start:int, stop:int, step:int) -> bool:
    """
    pre: -3 <= start <= 3 and -3 <= stop <= 3 and -3 <= step <= 3 and step != 0
    post: _
    """
    rec = []
    @qp.for_loop(start, stop, step)
    def body(i):
        rec.append(i)
    body()
    return rec == list(range(start, stop, step))

def wm_step(z: List[int], a: List[int], want_zero: bool, restored: bool, allow_resets: bool, use_min: bool, m:int) -> bool:
    """
    pre: len(z) <= 2 and len(a) <= 2
    pre: len(set(z+a)) == len(z)+len(a)
    pre: all(w < m for w in z+a)
    post: _
    """
    mgr = _WireManager(zeroed=z, any_state=a, min_int=(m if use_min else None), allow_resets=allow_resets)
    st = AllocateState.ZERO if want_zero else AllocateState.ANY
    try:
        w, ops = mgr.get_wire(st, restored)
    except AllocationError:
        return (not use_min)
    except IndexError:
        return False
    free = mgr._zeroed + mgr._any_state
    ok_distinct = len(set(free)) == len(free) and w not in free and list(mgr._loaned) == [w]
    came_from_any = w in a
    ok_zero = (not want_zero) or (not came_from_any) or len(ops) > 0
    ok_handed = (w in z) or (w in a) or (use_min and w >= m)
    return ok_distinct and ok_zero and ok_handed
