import pennylane as qp, numpy as np, warnings, inspect
warnings.filterwarnings("ignore")
rng = np.random.default_rng(1)
def inst(name):
    cls = getattr(qp, name, None)
    if cls is None: return None
    try:
        nw = cls.num_wires if isinstance(getattr(cls,'num_wires',None), int) else 2
    except Exception: nw = 2
    np_ = getattr(cls, 'num_params', 0)
    if not isinstance(np_, int): np_ = 1
    try:
        return cls(*rng.uniform(-3,3,size=np_), wires=list(range(nw)))
    except Exception as e:
        return None
names = ["RX","RY","RZ","PhaseShift","U1","U2","U3","Rot","CRX","CRY","CRZ","CRot","ControlledPhaseShift","IsingXX","IsingYY","IsingZZ","IsingXY","PSWAP","SingleExcitation","SingleExcitationPlus","SingleExcitationMinus","DoubleExcitation","DoubleExcitationPlus","DoubleExcitationMinus","OrbitalRotation","FermionicSWAP","Hadamard","S","T","SX","CNOT","CZ","CY","CH","SWAP","ISWAP","SISWAP","CSWAP","Toffoli","CCZ","PauliX","PauliY","PauliZ","ECR","GlobalPhase"]
bad = []
nrules = 0
for n in names:
    op = inst(n)
    if op is None: print("no inst", n); continue
    M = qp.matrix(op)
    wo = list(op.wires)
    if op.has_decomposition:
        D = qp.matrix(qp.tape.QuantumScript(op.decomposition()), wire_order=wo)
        if not np.allclose(M, D):
            ph = np.allclose(np.abs(np.trace(M.conj().T@D)), M.shape[0])
            bad.append((n, 'decomposition()', 'phase-only' if ph else 'WRONG'))
    for rule in qp.list_decomps(n):
        nrules += 1
        try:
            with qp.queuing.AnnotatedQueue() as q:
                rule(*op.parameters, wires=op.wires, **op.hyperparameters)
            ops = [o for o in q.queue]
            if any(o.name in ("Allocate","Deallocate","MidMeasureMP") or 'Conditional' in o.name for o in ops):
                print("  skip mcm/alloc rule", n, rule); continue
            D = qp.matrix(qp.tape.QuantumScript(ops), wire_order=wo)
            if not np.allclose(M, D):
                ph = np.allclose(np.abs(np.trace(M.conj().T@D)), M.shape[0])
                bad.append((n, str(rule)[:60], 'phase-only' if ph else 'WRONG'))
        except Exception as e:
            print("  rule err", n, str(rule)[:50], repr(e)[:100])
print("rules tried", nrules)
print("BAD:", bad)
