"""Registry of operator instances with closed-form symbolic matrices (DESIGN.md §4 'Registry').

An Instance knows how to build the *real* PennyLane operator from a list of parameters (symbolic 0-d
object arrays or floats) on given wire labels."""
from __future__ import annotations

import itertools

import pennylane as qp


class Instance:
    def __init__(self, key, cls, nparams, nwires, build, tags=()):
        self.key, self.cls, self.nparams, self.nwires, self._build, self.tags = key, cls, nparams, nwires, build, set(tags)

    @property
    def name(self):
        return self.cls

    def build(self, params, wires=None):
        wires = list(range(self.nwires)) if wires is None else list(wires)
        return self._build(list(params), wires)

    def __repr__(self):
        return f"Instance({self.key})"


def _simple(name, nparams, nwires, **hyper):
    cls = getattr(qp, name)

    def b(params, wires):
        return cls(*params, wires=wires if nwires != 1 else wires[0], **hyper)

    return Instance(name, name, nparams, nwires, b)


NONPARAM = [("Identity", 1), ("PauliX", 1), ("PauliY", 1), ("PauliZ", 1), ("Hadamard", 1), ("S", 1), ("T", 1), ("SX", 1),
            ("CNOT", 2), ("CZ", 2), ("CY", 2), ("CH", 2), ("SWAP", 2), ("ISWAP", 2), ("SISWAP", 2), ("ECR", 2),
            ("CSWAP", 3), ("Toffoli", 3), ("CCZ", 3)]
PARAM = [("RX", 1, 1), ("RY", 1, 1), ("RZ", 1, 1), ("PhaseShift", 1, 1), ("U1", 1, 1), ("U2", 2, 1), ("U3", 3, 1), ("Rot", 3, 1),
         ("CRX", 1, 2), ("CRY", 1, 2), ("CRZ", 1, 2), ("CRot", 3, 2), ("ControlledPhaseShift", 1, 2),
         ("CPhaseShift00", 1, 2), ("CPhaseShift01", 1, 2), ("CPhaseShift10", 1, 2),
         ("IsingXX", 1, 2), ("IsingYY", 1, 2), ("IsingZZ", 1, 2), ("IsingXY", 1, 2), ("PSWAP", 1, 2),
         ("SingleExcitation", 1, 2), ("SingleExcitationPlus", 1, 2), ("SingleExcitationMinus", 1, 2),
         ("FermionicSWAP", 1, 2),
         ("DoubleExcitation", 1, 4), ("DoubleExcitationPlus", 1, 4), ("DoubleExcitationMinus", 1, 4),
         ("OrbitalRotation", 1, 4)]


def instances(include_big=True):
    out = []
    for n, w in NONPARAM:
        out.append(_simple(n, 0, w))
    for n, k, w in PARAM:
        if w >= 4 and not include_big:
            continue
        out.append(_simple(n, k, w))
    # variable-wire operators
    for nw in (1, 2):
        out.append(Instance(f"Identity[{nw}w]", "Identity", 0, nw, lambda p, w: qp.Identity(wires=w)))
    for nw in (1, 2):
        out.append(Instance(f"GlobalPhase[{nw}w]", "GlobalPhase", 1, nw, lambda p, w: qp.GlobalPhase(p[0], wires=w)))
    for nw in (1, 2, 3):
        out.append(Instance(f"MultiRZ[{nw}w]", "MultiRZ", 1, nw, lambda p, w: qp.MultiRZ(p[0], wires=w)))
    for word in ("X", "Y", "Z", "XY", "ZY", "IZ", "XI", "XYZ", "ZIX"):
        out.append(Instance(f"PauliRot[{word}]", "PauliRot", 1, len(word),
                            (lambda word: lambda p, w: qp.PauliRot(p[0], word, wires=w))(word)))
    for nw, dim in ((1, 1), (2, 1), (2, 2), (2, 3), (3, 5)):
        out.append(Instance(f"PCPhase[{nw}w,dim{dim}]", "PCPhase", 1, nw,
                            (lambda dim: lambda p, w: qp.PCPhase(p[0], dim=dim, wires=w))(dim)))
    for cv in ("1", "0", "11", "10", "01", "00", "101", "110", "011"):
        nc = len(cv)
        out.append(Instance(f"MultiControlledX[{cv}]", "MultiControlledX", 0, nc + 1,
                            (lambda cv: lambda p, w: qp.MultiControlledX(wires=w, control_values=[int(c) for c in cv]))(cv)))
    return out


def by_key():
    return {i.key: i for i in instances()}


def by_class(name):
    return [i for i in instances() if i.cls == name]
