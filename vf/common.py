"""Check context: obligations bookkeeping, evidence, replay files, known findings, parallel map.

Contract (DESIGN.md §3):
  exit 0  no violation among everything explored (inconclusive items are listed, never hidden)
  exit 1  + "VIOLATION property=<id> replay=<path>" for a replayed, reproducing counterexample that
          is not listed in known_findings.json
  exit 2  harness error (model that does not reproduce is *not* an error: it is inconclusive; a
          self-validation mismatch or an unsatisfiable reachability twin is)
"""
from __future__ import annotations

import hashlib
import json
import os
import re
import signal
import sys
import time
import traceback
from concurrent.futures import ProcessPoolExecutor, as_completed
import multiprocessing as mp

VERIF = "/verif"
REPO = "/repo"
_OUT = os.environ.get("VERIF_OUT") if os.environ.get("VERIF_REPO") else None
EVID = os.path.join(_OUT or VERIF, "evidence")
REPLAYS = os.path.join(_OUT or VERIF, "replays")
WORK = os.path.join(_OUT or VERIF, ".work")
if os.environ.get("VERIF_REPO"):
    REPO = os.environ["VERIF_REPO"]
KNOWN = os.path.join(VERIF, "known_findings.json")

DISCHARGED = "discharged"
VIOLATED = "violated"
INCONCLUSIVE = "inconclusive"
UNSUPPORTED = "unsupported"
HARNESS_ERROR = "harness_error"


class HarnessError(Exception):
    pass


def sha_of(path):
    try:
        with open(path, "rb") as f:
            return hashlib.sha256(f.read()).hexdigest()[:16]
    except OSError:
        return None


def _jsonable(x):
    try:
        json.dumps(x)
        return x
    except (TypeError, ValueError):
        if isinstance(x, dict):
            return {str(k): _jsonable(v) for k, v in x.items()}
        if isinstance(x, (list, tuple, set)):
            return [_jsonable(v) for v in x]
        return repr(x)


class Ctx:
    def __init__(self, pid, tier, seed):
        self.pid = pid
        self.tier = tier
        self.seed = seed
        self.t0 = time.time()
        self.records = []  # obligation records (dicts)
        self.unsupported = []
        self.functions = {}  # qualified name -> file
        self.bounds = {}
        self.assumptions = []
        self.trusted_base = []
        self.extra = {}
        self.rule = ""
        self.level = "proof"
        self.shapes = 0
        self.solver_time = 0.0
        self.harness_errors = []
        self.explanation = ""
        self.cpus = int(os.environ.get("VERIF_CPUS", "0")) or min(16, os.cpu_count() or 1)
        os.makedirs(EVID, exist_ok=True)
        os.makedirs(REPLAYS, exist_ok=True)
        self.work = os.path.join(WORK, pid)
        import shutil

        shutil.rmtree(self.work, ignore_errors=True)
        os.makedirs(self.work, exist_ok=True)
        import glob

        for old in glob.glob(os.path.join(REPLAYS, f"{pid}_*.json")):  # stale replay files of earlier runs
            try:
                os.remove(old)
            except OSError:
                pass
        self._known = self._load_known()

    # ------------------------------------------------------------------ known findings
    def _load_known(self):
        try:
            with open(KNOWN) as f:
                d = json.load(f)
        except OSError:
            return []
        return [k for k in d.get("known", []) if k.get("property") == self.pid]

    def known_match(self, signature):
        for k in self._known:
            if k.get("signature") == signature:
                return k
            pat = k.get("pattern")
            if pat and re.fullmatch(pat, signature):
                return k
        return None

    # ------------------------------------------------------------------ declarations
    def encode(self, *objs):
        """Record the real functions/classes that are executed symbolically (with source digests)."""
        import inspect

        for o in objs:
            try:
                f = inspect.getsourcefile(o)
                name = getattr(o, "__module__", "") + "." + getattr(o, "__qualname__", getattr(o, "__name__", repr(o)))
            except TypeError:
                f, name = None, repr(o)
            self.functions[name] = f

    def bound(self, **kw):
        self.bounds.update(kw)

    def assume(self, *texts):
        for t in texts:
            if t not in self.assumptions:
                self.assumptions.append(t)

    def trust(self, *texts):
        for t in texts:
            if t not in self.trusted_base:
                self.trusted_base.append(t)

    # ------------------------------------------------------------------ records
    def add(self, rec):
        """rec: dict(name, status, symbols, time_s, detail, signature?, replay?)"""
        rec = dict(rec)
        rec.setdefault("symbols", [])
        rec.setdefault("time_s", 0.0)
        self.solver_time += float(rec.get("solver_s", rec.get("time_s", 0.0)) or 0.0)
        if rec["status"] == UNSUPPORTED:
            self.unsupported.append({"name": rec["name"], "why": rec.get("detail", "")})
            return
        if rec["status"] == HARNESS_ERROR:
            self.harness_errors.append(rec)
            return
        if rec["status"] == "searched":  # bounded search without verdict: reported, not an obligation
            self.extra.setdefault("bounded_search_only", []).append({k: rec.get(k) for k in ("name", "detail", "time_s", "bounds")})
            return
        self.records.append(rec)

    def extend(self, recs):
        for r in recs:
            self.add(r)

    # ------------------------------------------------------------------ parallel map
    def pmap(self, fn, items, timeout_each=None, label=None):
        """Run fn(item) -> list[record] in forked workers. Worker exceptions become harness errors,
        wall-clock overruns become inconclusive records."""
        items = list(items)
        if not items:
            return
        n = min(self.cpus, len(items))
        if n <= 1 or os.environ.get("VERIF_SERIAL"):
            for it in items:
                self.extend(_guard(fn, it, timeout_each))
            return
        ctx = mp.get_context("fork")
        with ProcessPoolExecutor(max_workers=n, mp_context=ctx) as ex:
            futs = {ex.submit(_guard, fn, it, timeout_each): it for it in items}
            for fu in as_completed(futs):
                try:
                    self.extend(fu.result())
                except Exception as e:  # worker died
                    self.add({"name": f"worker:{futs[fu]!r}"[:200], "status": HARNESS_ERROR, "detail": repr(e)})

    # ------------------------------------------------------------------ finish
    def finish(self):
        recs = self.records
        n_obl = len(recs)
        disc = [r for r in recs if r["status"] == DISCHARGED]
        inc = [r for r in recs if r["status"] == INCONCLUSIVE]
        vio = [r for r in recs if r["status"] == VIOLATED]
        new_vio, known_vio = [], []
        for r in vio:
            k = self.known_match(r.get("signature", r["name"]))
            (known_vio if k else new_vio).append((r, k))
        # replay files for new violations
        lines = []
        seen_known = set()
        for r, k in known_vio:
            sig = k.get("signature") or k.get("pattern")
            if sig in seen_known:
                continue
            seen_known.add(sig)
            lines.append(f"KNOWN-FINDING: property={self.pid} {k.get('what', sig)}")
        for i, (r, _) in enumerate(new_vio):
            path = os.path.join(REPLAYS, f"{self.pid}_{i}.json")
            with open(path, "w") as f:
                json.dump(_jsonable({"property": self.pid, "obligation": r["name"], "signature": r.get("signature"),
                                     "replay": r.get("replay"), "detail": r.get("detail"),
                                     "how_to_run": f"/verif/bin/check {self.pid} --replay {path}"}), f, indent=1)
            lines.append(f"VIOLATION property={self.pid} replay={path}")
        distinct = len({r["name"] for r in recs if r.get("symbols") and r.get("nontrivial", True)})
        level = self.level
        expl = self.explanation
        try:  # the evidence level follows the category claimed in MANIFEST.json (a partial claim is filed as 'other' there)
            with open(os.path.join(os.path.dirname(os.path.dirname(os.path.abspath(__file__))), "MANIFEST.json")) as mf:
                claimed = {c["property_id"]: c["level_claimed"]["category"] for c in json.load(mf)["checks"]}
            if claimed.get(self.pid) == "other":
                level = "other"
        except Exception:  # noqa: BLE001
            pass
        if level == "proof" and (len(disc) != n_obl or n_obl == 0):
            level = "other"
            expl = (expl + " " if expl else "") + (
                f"{len(disc)} of {n_obl} obligations discharged by the solver; {len(inc)} inconclusive "
                f"(timeout/unknown/non-reproducing model), {len(known_vio)} known findings, {len(new_vio)} new violations.")
        samples = []
        for r in (new_vio and [x[0] for x in new_vio] or []) + disc[:4] + inc[:2]:
            samples.append({k: r.get(k) for k in ("name", "status", "symbols", "solver", "time_s", "detail") if r.get(k) is not None})
        if not samples and recs:
            samples = [{k: recs[0].get(k) for k in ("name", "status", "symbols")}]
        cov = {
            "evaluations": int(sum((int(r.get("queries", 1)) or 1) for r in recs)),  # a record without a solver query is still one executed case
            "distinct_nontrivial": distinct,
            "rule": self.rule or "one obligation per (instance, identity); non-trivial = contains at least one symbolic variable and its reachability twin is satisfiable",
            "samples": _jsonable(samples) or [{"note": "no obligations"}],
            "obligations": n_obl,
            "discharged": len(disc),
            "inconclusive": len(inc),
            "inconclusive_names": [r["name"] for r in inc][:50],
            "known_findings": len(known_vio),
            "new_violations": len(new_vio),
            "unsupported": self.unsupported[:200],
            "unsupported_count": len(self.unsupported),
            "functions_encoded": {k: {"file": v, "sha256_16": sha_of(v) if v else None} for k, v in sorted(self.functions.items())},
            "bounds": _jsonable(self.bounds),
            "shapes_enumerated": self.shapes,
            "solver_time_s": round(self.solver_time, 3),
            "solver_versions": _solver_versions(),
            "checker_cmd": f"/verif/bin/check {self.pid} --tier {self.tier}",
            "trusted_base": self.trusted_base or ["z3 5.1.0", "vf.symx lifting (self-validated against float execution)"],
            "explanation": expl or "all obligations discharged (unsat) within the stated bounds",
        }
        cov.update(_jsonable(self.extra))
        ev = {
            "property_id": self.pid,
            "tier": self.tier,
            "seed": int(self.seed),
            "level": level,
            "coverage": cov,
            "assumptions": self.assumptions,
            "wall_s": round(time.time() - self.t0, 2),
            "violations": len(new_vio),
        }
        with open(os.path.join(EVID, f"{self.pid}.json"), "w") as f:
            json.dump(ev, f, indent=1)
        for l in lines:
            print(l)
        print(f"[{self.pid}/{self.tier}] obligations={n_obl} discharged={len(disc)} inconclusive={len(inc)} "
              f"known={len(known_vio)} new_violations={len(new_vio)} unsupported={len(self.unsupported)} "
              f"harness_errors={len(self.harness_errors)} wall={time.time() - self.t0:.1f}s")
        if self.harness_errors:
            for h in self.harness_errors[:10]:
                print("HARNESS-ERROR:", h.get("name"), str(h.get("detail"))[:600], file=sys.stderr)
        if new_vio:
            return 1
        if self.harness_errors:
            return 2
        return 0


def _solver_versions():
    out = {}
    try:
        import z3

        out["z3"] = z3.get_version_string()
    except Exception:
        pass
    try:
        import cvc5

        out["cvc5"] = getattr(cvc5, "__version__", "wheel")
    except Exception:
        pass
    return out


class _Alarm(Exception):
    pass


def _guard(fn, item, timeout_each):
    def onalarm(signum, frame):
        raise _Alarm()

    if timeout_each:
        signal.signal(signal.SIGALRM, onalarm)
        signal.alarm(int(timeout_each))
    t = time.time()
    try:
        out = fn(item)
        return list(out or [])
    except _Alarm:
        return [{"name": f"{_name(item)}", "status": INCONCLUSIVE, "detail": f"wall-clock budget {timeout_each}s exceeded during symbolic execution/solving", "time_s": time.time() - t, "symbols": ["?"]}]
    except Exception as e:
        tb = traceback.format_exc(limit=8)
        return [{"name": f"{_name(item)}", "status": HARNESS_ERROR, "detail": f"{e!r}\n{tb}"}]
    finally:
        if timeout_each:
            signal.alarm(0)


def _name(item):
    if isinstance(item, dict) and "name" in item:
        return item["name"]
    if isinstance(item, (tuple, list)) and item and isinstance(item[0], str):
        return item[0]
    return repr(item)[:120]
