"""E2: CrossHair (z3-backed symbolic execution of Python) over contract functions that call the REAL
PennyLane code.

A contract file is an ordinary module under /verif/contracts/ whose functions carry PEP-316 docstrings
(`pre:` lines are the stated bounds, `post:` the property, oracle = a short reference model written with
Python built-ins).  Every function is one *condition*; each condition is analysed by its own
`crosshair check --report_all` process (parallel), and a *reachability twin* (same function, `post: False`)
must be refuted -- otherwise the precondition is vacuous or no path completed.

Verdict mapping
  Confirmed over all paths      -> discharged (holds for every input satisfying the pre lines)
  error ... when calling f(..)  -> the call is re-evaluated in plain CPython against the real code;
                                   reproduces -> violated, otherwise inconclusive
  Not confirmed                 -> inconclusive (bounded search, no counterexample within the budget)
  Unable to meet precondition   -> inconclusive; with a failing twin: harness error (vacuous)
"""
from __future__ import annotations

import ast
import importlib.util
import os
import re
import subprocess
import sys
import time

from .common import DISCHARGED, VIOLATED, INCONCLUSIVE, HARNESS_ERROR

PY = "/verif/.venv/bin/python"
CONTRACTS = "/verif/contracts"


def conditions(path):
    """[(function name, line number of def, docstring)] for every function with a post: line"""
    src = open(path).read()
    out = []
    for node in ast.parse(src).body:
        if isinstance(node, ast.FunctionDef):
            doc = ast.get_docstring(node) or ""
            if re.search(r"^\s*post(\[[^\]]*\])?:", doc, re.M):
                out.append((node.name, node.lineno, doc))
    return out


def _twin_source(path, fname):
    """module source in which `fname`'s post-condition is False (and every other contract is dropped)"""
    src = open(path).read()
    tree = ast.parse(src)
    lines = src.split("\n")
    for node in tree.body:
        if isinstance(node, ast.FunctionDef) and node.name == fname:
            ds = node.body[0]
            for ln in range(ds.lineno - 1, ds.end_lineno):
                if re.match(r"^\s*post(\[[^\]]*\])?:", lines[ln]):
                    lines[ln] = re.sub(r"post(\[[^\]]*\])?:.*", "post: False", lines[ln])
                elif re.match(r"^\s*raises:", lines[ln]):
                    pass
            return "\n".join(lines)
    raise KeyError(fname)


def _run_crosshair(target, timeout, per_path=None, cwd=None, extra_env=None):
    cmd = [PY, "-m", "crosshair", "check", "--report_all", "--analysis_kind=PEP316",
           f"--per_condition_timeout={timeout}"]
    if per_path:
        cmd.append(f"--per_path_timeout={per_path}")
    cmd.append(target)
    env = dict(os.environ)
    env["PYTHONPATH"] = "/verif:" + CONTRACTS + (":" + env["PYTHONPATH"] if env.get("PYTHONPATH") else "")
    env["PYTHONHASHSEED"] = "0"
    env.update(extra_env or {})
    t0 = time.time()
    try:
        p = subprocess.run(cmd, capture_output=True, text=True, timeout=timeout * 3 + 120, cwd=cwd or CONTRACTS, env=env)
        out = p.stdout + p.stderr
        rc = p.returncode
    except subprocess.TimeoutExpired as e:
        out = (e.stdout or b"").decode(errors="replace") if isinstance(e.stdout, bytes) else (e.stdout or "")
        out += "\n[wall-clock kill]"
        rc = -9
    return rc, out, time.time() - t0


_CALL = re.compile(r"when calling (.+?)(?: with crosshair\.patch_to_return\(.*\))?(?: \(which (?:returns|raises) .*\))?\s*$")


def parse(out, fname):
    """-> (kind, message, call)   kind in confirmed|notconfirmed|noprecond|counterexample|unknown"""
    kind, msg, call = "unknown", "", None
    for line in out.splitlines():
        m = re.match(r"^(.*?):(\d+): (info|error|warning): (.*)$", line)
        if not m:
            continue
        sev, text = m.group(3), m.group(4)
        if sev == "error":
            cm = _CALL.search(text)
            if cm:
                return "counterexample", text, cm.group(1)
            kind, msg = "error", text
        elif "Confirmed over all paths" in text:
            kind, msg = "confirmed", text
        elif "Not confirmed" in text:
            kind, msg = "notconfirmed", text
        elif "Unable to meet precondition" in text:
            kind, msg = "noprecond", text
    return kind, msg, call


def load_module(path, name=None):
    name = name or ("_contract_" + os.path.splitext(os.path.basename(path))[0])
    spec = importlib.util.spec_from_file_location(name, path)
    mod = importlib.util.module_from_spec(spec)
    if CONTRACTS not in sys.path:
        sys.path.insert(0, CONTRACTS)
    spec.loader.exec_module(mod)
    return mod


def replay_call(path, fname, call, doc=""):
    """Evaluate the reported call in plain CPython.  -> (reproduces, observed text)"""
    mod = load_module(path)
    ns = dict(vars(mod))
    import math

    ns.setdefault("nan", math.nan)
    ns.setdefault("inf", math.inf)
    declared = []
    for ln in doc.splitlines():
        m = re.match(r"^\s*raises:\s*(.*)$", ln)
        if m:
            declared += [x.strip() for x in m.group(1).split(",") if x.strip()]
    posts = [re.sub(r"^\s*post(\[[^\]]*\])?:\s*", "", ln) for ln in doc.splitlines() if re.match(r"^\s*post(\[[^\]]*\])?:", ln)]
    pres = [re.sub(r"^\s*pre:\s*", "", ln) for ln in doc.splitlines() if re.match(r"^\s*pre:", ln)]
    # bind arguments to evaluate pre-conditions
    try:
        tree = ast.parse(call, mode="eval")
        fn = getattr(mod, fname)
        import inspect

        args = [eval(compile(ast.Expression(a), "<arg>", "eval"), ns) for a in tree.body.args]
        kwargs = {k.arg: eval(compile(ast.Expression(k.value), "<arg>", "eval"), ns) for k in tree.body.keywords}
        bound = inspect.signature(fn).bind(*args, **kwargs)
        bound.apply_defaults()
    except Exception as e:
        return False, f"could not rebuild the reported call {call!r}: {e!r}"
    env = dict(ns)
    env.update(bound.arguments)
    try:
        for p in pres:
            if not eval(p, env):
                return False, f"reported input does not satisfy precondition {p!r}"
    except Exception as e:
        return False, f"precondition raised on reported input: {e!r}"
    try:
        ret = fn(*bound.args, **bound.kwargs)
    except Exception as e:
        if type(e).__name__ in declared or any(isinstance(e, ns.get(d, ())) for d in declared if isinstance(ns.get(d), type)):
            return False, f"declared exception {type(e).__name__}"
        return True, f"{call} raised {type(e).__name__}: {e}"
    env["_"] = ret
    env["__return__"] = ret
    for p in posts:
        try:
            ok = eval(p, env)
        except Exception as e:
            return True, f"{call}: postcondition {p!r} raised {e!r}"
        if not ok:
            return True, f"{call} returned {ret!r}: postcondition {p!r} is false"
    return False, f"{call} returned {ret!r}: postcondition holds in plain CPython"


def check_condition(item):
    """item = dict(path, fname, lineno, doc, timeout, per_path, work, twin_timeout) -> [record]"""
    path, fname, lineno, doc = item["path"], item["fname"], item["lineno"], item["doc"]
    tmo = item.get("timeout", 60)
    base = os.path.splitext(os.path.basename(path))[0]
    name = f"{base}.{fname}"
    pres = [ln.strip() for ln in doc.splitlines() if ln.strip().startswith("pre:")]
    rec = {"name": name, "symbols": item.get("symbols") or _arg_names(path, fname), "queries": 1, "bounds": pres}
    rc, out, dt = _run_crosshair(f"{path}:{lineno}", tmo, item.get("per_path"))
    kind, msg, call = parse(out, fname)
    rec["solver"] = f"crosshair:{kind}"
    rec["solver_s"] = round(dt, 2)
    rec["time_s"] = round(dt, 2)
    if kind == "counterexample":
        ok, obs = replay_call(path, fname, call, doc)
        if ok:
            rec.update(status=VIOLATED, signature=item.get("signature") or name,
                       detail=f"counterexample reproduces in plain CPython on the real code: {obs}",
                       replay={"contract": path, "function": fname, "call": call, "observed": obs})
        else:
            rec.update(status=INCONCLUSIVE, detail=f"CrossHair reported {msg!r} but it does not reproduce concretely: {obs}")
        return [rec]
    if kind == "confirmed":
        # reachability twin
        twin_dir = item["work"]
        os.makedirs(twin_dir, exist_ok=True)
        tpath = os.path.join(twin_dir, f"twin_{base}__{fname}.py")
        with open(tpath, "w") as f:
            f.write(_twin_source(path, fname))
        trc, tout, tdt = _run_crosshair(f"{tpath}:{lineno}", item.get("twin_timeout", 40), cwd=os.path.dirname(path))
        tkind, tmsg, tcall = parse(tout, fname)
        rec["queries"] = 2
        rec["twin"] = tkind
        rec["time_s"] = round(dt + tdt, 2)
        if tkind == "counterexample":
            rec.update(status=DISCHARGED, detail="Confirmed over all paths; reachability twin (post: False) refuted with " + str(tcall)[:160])
        elif tkind in ("noprecond",):
            rec.update(status=HARNESS_ERROR, detail="reachability twin: unable to meet precondition (vacuous contract)")
        else:
            rec.update(status=INCONCLUSIVE, detail=f"confirmed, but reachability twin gave {tkind}: {tmsg or tout[-300:]}")
        return [rec]
    if kind == "notconfirmed" and item.get("search"):
        rec.update(status="searched", detail=f"mode: search -- bounded counterexample search for {tmo}s, none found (values are realised by hash()/str(), so exhaustiveness cannot be claimed)")
        return [rec]
    if kind == "notconfirmed":
        rec.update(status=INCONCLUSIVE, detail=f"Not confirmed within {tmo}s per-condition budget (bounded search, no counterexample)")
        return [rec]
    if kind == "noprecond":
        rec.update(status=INCONCLUSIVE, detail="Unable to meet precondition within budget (vacuous precondition or every path timed out)")
        return [rec]
    rec.update(status=HARNESS_ERROR, detail=f"unparsed CrossHair output rc={rc}: {out[-800:]}")
    return [rec]


def _arg_names(path, fname):
    for node in ast.parse(open(path).read()).body:
        if isinstance(node, ast.FunctionDef) and node.name == fname:
            return [a.arg for a in node.args.args]
    return []


def run_contracts(ctx, files, timeout=None, only=None, per_fn_timeout=None, tier_filter=None):
    """files: list of contract file basenames.  A function may carry `tier: thorough` in its docstring to be
    skipped in the quick tier, and `budget: N` to override the per-condition timeout (seconds, quick tier;
    thorough multiplies by 4)."""
    timeout = timeout or (60 if ctx.tier == "quick" else 300)
    items = []
    for fb in files:
        path = fb if os.path.isabs(fb) else os.path.join(CONTRACTS, fb)
        for fname, lineno, doc in conditions(path):
            if only and only not in fname:
                continue
            if re.search(r"^\s*tier:\s*thorough", doc, re.M) and ctx.tier == "quick":
                continue
            t = timeout
            m = re.search(r"^\s*budget:\s*(\d+)", doc, re.M)
            if m:
                t = int(m.group(1)) * (1 if ctx.tier == "quick" else 4)
            is_search = bool(re.search(r"^\s*mode:\s*search", doc, re.M))
            if is_search and ctx.tier == "quick" and not m:
                t = min(t, 60)
            items.append(dict(path=path, fname=fname, lineno=lineno, doc=doc, timeout=t, work=ctx.work, name=f"{fb}:{fname}",
                              search=bool(re.search(r"^\s*mode:\s*search", doc, re.M))))
    ctx.shapes += len(items)
    ctx.trust("CrossHair 0.0.110 symbolic execution (z3) of the real Python code; 'Confirmed over all paths' = every path within the pre: bounds explored")
    ctx.pmap(check_condition, items, timeout_each=None)
    return items


def replay(payload):
    doc = ""
    for fname, lineno, d in conditions(payload["contract"]):
        if fname == payload["function"]:
            doc = d
    return replay_call(payload["contract"], payload["function"], payload["call"], doc)
