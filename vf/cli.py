"""/verif/bin/check C<id> [--tier quick|thorough] [--replay PATH]"""
import argparse
import importlib
import json
import os
import sys
import traceback


def main():
    ap = argparse.ArgumentParser()
    ap.add_argument("pid")
    ap.add_argument("--tier", default=os.environ.get("VERIF_TIER", "quick"), choices=["quick", "thorough"])
    ap.add_argument("--replay", default=None)
    ap.add_argument("--only", default=None, help="substring filter on instance names (debugging)")
    a = ap.parse_args()
    seed = int(os.environ.get("VERIF_SEED", "0") or 0)
    pid = a.pid.upper()
    sys.path.insert(0, "/verif")
    try:
        mod = importlib.import_module(f"checks.{pid.lower()}")
    except ModuleNotFoundError as e:
        print(f"no check for {pid}: {e}", file=sys.stderr)
        return 2
    if a.replay:
        with open(a.replay) as f:
            payload = json.load(f)
        try:
            ok, msg = mod.replay(payload.get("replay") or payload)
        except Exception:
            traceback.print_exc()
            return 2
        print(("REPRODUCED: " if ok else "not reproduced: ") + str(msg))
        if ok:
            print(f"VIOLATION property={pid} replay={a.replay}")
        return 1 if ok else 0
    from vf.common import Ctx

    ctx = Ctx(pid, a.tier, seed)
    ctx.only = a.only
    try:
        mod.run(ctx)
    except Exception:
        traceback.print_exc()
        ctx.harness_errors.append({"name": "run", "detail": traceback.format_exc(limit=6)})
    return ctx.finish()


if __name__ == "__main__":
    sys.exit(main())
