"""Symbolic execution of the real default.qubit pipeline (get_final_state + measure_final_state) and an
independent matrix-route oracle for states and measurement results."""
from __future__ import annotations

import numpy as np
import pennylane as qp

from . import symx as sx


def run_tape(tape, **kw):
    """real default.qubit: -> (state tensor, tuple of results), all carried on symbolic terms"""
    from pennylane.devices.qubit import get_final_state, measure_final_state

    sx.install_shims()
    tape = tape.map_to_standard_wires()  # as qp.devices.qubit.simulate does
    st, is_batched = get_final_state(tape, **kw)
    res = measure_final_state(tape, st, is_batched)
    if not isinstance(res, tuple):
        res = (res,)
    return st, res


def oracle_state(ops, W):
    """|psi> = prod_k embed(matrix(op_k)) |0..0> by own re-indexing (C02/C01 establish the leaf matrices)"""
    N = 2 ** len(W)
    psi = np.zeros(N, dtype=object)
    psi[0] = 1
    for op in ops:
        if op.name in ("Snapshot", "Barrier", "WireCut"):
            continue
        ws = list(op.wires)
        M = sx.arr(qp.matrix(op, wire_order=ws)) if ws else sx.arr(qp.matrix(op, wire_order=W[:1]))
        U = sx.embed(M, ws, W) if ws else sx.embed(M, W[:1], W)
        psi = np.dot(U, psi)
    return psi


def obs_matrix(obs, W):
    ws = list(obs.wires)
    return sx.embed(sx.arr(qp.matrix(obs, wire_order=ws)), ws, W)


def oracle_measure(psi, mp, W):
    """expected result of one measurement process from the state vector, by own formulas"""
    psi = np.asarray(psi, dtype=object)
    n = len(W)
    name = type(mp).__name__
    conj = np.array([sx.arr(x).item().conjugate() if isinstance(sx.arr(x).item(), sx.SymC) else np.conj(x) for x in psi], dtype=object)
    if name == "StateMP":
        return psi
    if name == "ExpectationMP":
        O = obs_matrix(mp.obs, W)
        return np.dot(conj, np.dot(O, psi))
    if name == "VarianceMP":
        O = obs_matrix(mp.obs, W)
        e1 = np.dot(conj, np.dot(O, psi))
        e2 = np.dot(conj, np.dot(np.dot(O, O), psi))
        return e2 - e1 * e1
    if name == "ProbabilityMP":
        ws = list(mp.wires) if len(mp.wires) else list(W)
        pos = [W.index(w) for w in ws]
        out = np.zeros(2 ** len(ws), dtype=object)
        for k in range(2 ** n):
            bits = [(k >> (n - 1 - q)) & 1 for q in range(n)]
            idx = 0
            for q in pos:
                idx = (idx << 1) | bits[q]
            out[idx] = out[idx] + conj[k] * psi[k]
        return out
    if name == "DensityMatrixMP":
        ws = list(mp.wires)
        pos = [W.index(w) for w in ws]
        rest = [q for q in range(n) if q not in pos]
        d = 2 ** len(ws)
        rho = np.zeros((d, d), dtype=object)
        for i in range(2 ** n):
            bi = [(i >> (n - 1 - q)) & 1 for q in range(n)]
            for j in range(2 ** n):
                bj = [(j >> (n - 1 - q)) & 1 for q in range(n)]
                if any(bi[q] != bj[q] for q in rest):
                    continue
                r = int("".join(str(bi[q]) for q in pos) or "0", 2)
                c = int("".join(str(bj[q]) for q in pos) or "0", 2)
                rho[r, c] = rho[r, c] + psi[i] * conj[j]
        return rho
    if name == "PurityMP":
        rho = oracle_measure(psi, qp.density_matrix(wires=mp.wires), W)
        return np.trace(np.dot(rho, rho))
    raise sx.Unsupported(f"measurement {name}")
