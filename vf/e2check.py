"""Boilerplate for E2 (CrossHair contract) checks: checks/cXX.py calls make(...) to get run/replay."""
from __future__ import annotations

import importlib

from . import chrun


def make(files, encode=(), bounds=None, assumptions=(), rule=None, quick_timeout=90, thorough_timeout=400, explanation=""):
    def run(ctx):
        ctx.level = "proof"
        objs = []
        for dotted in encode:
            mod, _, attr = dotted.rpartition(":")
            o = importlib.import_module(mod)
            for part in attr.split("."):
                o = getattr(o, part)
            objs.append(o)
        ctx.encode(*objs)
        ctx.bound(**(bounds or {}))
        ctx.bound(per_condition_bounds="the pre: lines of each contract function (listed per obligation under coverage.contract_bounds)")
        ctx.assume(*assumptions)
        ctx.explanation = explanation
        ctx.rule = rule or ("one obligation per contract function (condition) in /verif/contracts; every condition has symbolic "
                            "arguments ranging over all values allowed by its pre: lines; non-trivial = CrossHair explored it with "
                            "symbolic inputs and its reachability twin (post: False) was refuted")
        items = chrun.run_contracts(ctx, list(files), timeout=quick_timeout if ctx.tier == "quick" else thorough_timeout, only=ctx.only)
        ctx.extra["contract_bounds"] = {r["name"]: r.get("bounds") for r in ctx.records}
        ctx.extra["contract_files"] = list(files)

    return run, chrun.replay
