"""E3: reversible-circuit -> SMT.  The REAL decomposition rules / decomposition() of an arithmetic template are expanded
(recursively, through the library's own rule registry) to a classical reversible alphabet; every wire becomes a z3 Bool
(inputs: one free Bool per qubit) and every gate a substitution.  One z3 query then covers ALL 2^n basis inputs of a register
size at which matrices are out of reach.

Alphabet: X, CNOT, Toffoli, MultiControlledX(control_values), SWAP, CSWAP, TemporaryAND/Elbow (+adjoint), BasisState, Identity /
GlobalPhase (ignored), Controlled(<classical>), Adjoint(<classical>), Pow(<classical>, k), dynamic Allocate/Deallocate.
TemporaryAND contributes the proof obligation "target is |0> before the elbow", its adjoint "target equals the AND of the
controls" (then the target is reset to 0).
"""
from __future__ import annotations

import z3

import pennylane as qp
from pennylane.transforms.decompose import _get_decomp_args


class NotClassical(Exception):
    pass


class NotApplicable(Exception):
    pass


IGNORED = {"Identity", "GlobalPhase", "Barrier"}
PRIMS = {"PauliX", "X", "CNOT", "Toffoli", "MultiControlledX", "SWAP", "CSWAP", "TemporaryAND", "Elbow", "Adjoint(TemporaryAND)", "Adjoint(Elbow)", "BasisState", "Allocate", "Deallocate"} | IGNORED


def apply_rule(op, rule):
    rp, args_, kwargs_ = _get_decomp_args(op)
    if not rule.is_applicable(**rp):
        return None
    with qp.queuing.AnnotatedQueue() as q:
        rule(*args_, **kwargs_)
    return list(q.queue)


def rules_of(op):
    try:
        return list(qp.list_decomps(op))
    except Exception:
        return []


def expand(op, depth=0, top_rule=None, memo=None):
    """-> flat list of primitive ops, or raises NotClassical.  top_rule: use this registered rule for `op` itself."""
    if depth > 10:
        raise NotClassical(f"depth limit at {op.name}")
    name = op.name
    if name in PRIMS and top_rule is None:
        return [op]
    if name.startswith("C(") or type(op).__name__.startswith("Controlled"):
        base = getattr(op, "base", None)
        if base is not None and top_rule is None:
            try:
                inner = expand(base, depth + 1)
                return [("ctrl", list(op.control_wires), list(op.control_values), inner)]
            except NotClassical:
                pass
    if (name.startswith("Adjoint(") or type(op).__name__.startswith("Adjoint")) and top_rule is None and getattr(op, "base", None) is not None:
        try:
            inner = expand(op.base, depth + 1)
            return [("adjoint", inner)]
        except NotClassical:
            pass
    if (name.startswith("Pow(") or type(op).__name__.startswith("Pow")) and top_rule is None and getattr(op, "base", None) is not None:
        z = op.z if hasattr(op, "z") else op.hyperparameters.get("z")
        if isinstance(z, int) or float(z).is_integer():
            z = int(z)
            try:
                inner = expand(op.base, depth + 1)
                return [("adjoint", inner)] * (-z) if z < 0 else inner * z
            except NotClassical:
                pass
    candidates = []
    if top_rule is not None:
        candidates = [top_rule]
    else:
        candidates = rules_of(op)
    errors = []
    for rule in candidates:
        try:
            em = apply_rule(op, rule)
        except Exception as e:
            errors.append(f"{getattr(rule, 'name', rule)}: raised {e!r}")
            continue
        if em is None:
            if top_rule is not None:
                raise NotApplicable(getattr(rule, "name", str(rule)))
            continue
        try:
            out = []
            for o in em:
                out += expand(o, depth + 1)
            return out
        except NotClassical as e:
            errors.append(f"{getattr(rule, 'name', rule)}: {e}")
    if top_rule is None and op.has_decomposition:
        try:
            with qp.QueuingManager.stop_recording():
                dec = op.decomposition()
            out = []
            for o in dec:
                out += expand(o, depth + 1)
            return out
        except NotClassical as e:
            errors.append(f"decomposition(): {e}")
        except Exception as e:
            errors.append(f"decomposition(): raised {e!r}")
    raise NotClassical(f"{name} does not expand to the classical alphabet ({'; '.join(errors)[:300]})")


class BitState:
    """wire -> z3 Bool, plus collected proof obligations"""

    def __init__(self, bits):
        self.bits = dict(bits)
        self.obligations = []
        self.fresh = 0
        self.alloc = {}

    def get(self, w):
        if w not in self.bits:
            raise KeyError(f"wire {w!r} used by the decomposition is not a register/work wire of the template")
        return self.bits[w]

    def set(self, w, new, cond):
        old = self.get(w)
        self.bits[w] = new if cond is None else z3.If(cond, new, old)


def _cv_term(st, wires, values):
    return z3.And(*[st.get(w) if v else z3.Not(st.get(w)) for w, v in zip(wires, values)]) if wires else z3.BoolVal(True)


def run(gates, st, cond=None, inverse=False):
    seq = list(reversed(gates)) if inverse else list(gates)
    for g in seq:
        if isinstance(g, tuple):
            if g[0] == "ctrl":
                c = _cv_term(st, g[1], g[2])
                run(g[3], st, c if cond is None else z3.And(cond, c), inverse)
            elif g[0] == "adjoint":
                run(g[1], st, cond, not inverse)
            continue
        name, w = g.name, list(g.wires)
        if name in IGNORED:
            continue
        if name in ("PauliX", "X"):
            st.set(w[0], z3.Not(st.get(w[0])), cond)
        elif name == "CNOT":
            st.set(w[1], z3.Xor(st.get(w[1]), st.get(w[0])), cond)
        elif name == "Toffoli":
            st.set(w[2], z3.Xor(st.get(w[2]), z3.And(st.get(w[0]), st.get(w[1]))), cond)
        elif name == "MultiControlledX":
            cw = list(g.control_wires)
            cv = list(g.control_values)
            t = [x for x in w if x not in cw and x not in list(getattr(g, "work_wires", []))][-1]
            st.set(t, z3.Xor(st.get(t), _cv_term(st, cw, cv)), cond)
        elif name == "SWAP":
            a, b = st.get(w[0]), st.get(w[1])
            st.set(w[0], b, cond)
            st.set(w[1], a, cond)
        elif name == "CSWAP":
            c, a, b = st.get(w[0]), st.get(w[1]), st.get(w[2])
            st.set(w[1], z3.If(c, b, a), cond)
            st.set(w[2], z3.If(c, a, b), cond)
        elif name in ("TemporaryAND", "Elbow", "Adjoint(TemporaryAND)", "Adjoint(Elbow)"):
            is_adj = name.startswith("Adjoint(")
            base = g.base if is_adj else g
            cv = list(base.hyperparameters.get("control_values", (1, 1)))
            andv = _cv_term(st, w[:2], cv)
            forward = (not is_adj) != inverse
            guard = z3.BoolVal(True) if cond is None else cond
            if forward:
                st.obligations.append((f"TemporaryAND on {w}: target is |0> before the elbow", z3.Implies(guard, z3.Not(st.get(w[2])))))
                st.set(w[2], andv, cond)
            else:
                st.obligations.append((f"Adjoint(TemporaryAND) on {w}: target equals the AND of its controls", z3.Implies(guard, st.get(w[2]) == andv)))
                st.set(w[2], z3.BoolVal(False), cond)
        elif name == "BasisState":
            vals = [int(v) for v in g.parameters[0]]
            for wi, v in zip(w, vals):
                if v:
                    st.set(wi, z3.Not(st.get(wi)), cond)
        elif name == "Allocate":
            state = g.hyperparameters.get("state")
            restored = g.hyperparameters.get("restored", False)
            for wi in w:
                st.fresh += 1
                is_zero = "zero" in str(state).lower()
                st.bits[wi] = z3.BoolVal(False) if is_zero else z3.Bool(f"borrowed{st.fresh}")
                st.alloc[wi] = (st.bits[wi], restored)
        elif name == "Deallocate":
            for wi in w:
                init, restored = st.alloc.get(wi, (None, False))
                if restored and init is not None:
                    st.obligations.append((f"dynamically allocated wire restored before Deallocate", st.get(wi) == init))
                st.bits.pop(wi, None)
        else:
            raise NotClassical(name)


def bv(st_or_bits, wires):
    """register as a z3 bit-vector, first wire most significant"""
    bits = st_or_bits.bits if isinstance(st_or_bits, BitState) else st_or_bits
    parts = [z3.If(bits[w], z3.BitVecVal(1, 1), z3.BitVecVal(0, 1)) for w in wires]
    return z3.Concat(*parts) if len(parts) > 1 else parts[0]


def prim_names(gates, out=None):
    from collections import Counter

    out = Counter() if out is None else out
    for g in gates:
        if isinstance(g, tuple):
            prim_names(g[3] if g[0] == "ctrl" else g[1], out)
            out[g[0]] += 1
        else:
            out[g.name] += 1
    return out
