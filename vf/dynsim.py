"""Branch oracle for dynamic circuits (mid-circuit measurements, reset, postselection, classically controlled operations).

For ONE assignment of outcomes to the mid-circuit measurements the tape is run on an UNNORMALISED state vector: gates by the
matrix route (sx.embed of qp.matrix), a measurement with outcome v keeps the slice of the measured wire (and moves it to |0> on
reset), a Conditional is applied iff its MeasurementValue evaluates to true on the assignment.  Exact branch-averaged statistics
are sums over all assignments, weighted by the squared norm of the branch state.  Gate parameters may be solver terms.
"""
from __future__ import annotations

import itertools

import numpy as np
import pennylane as qp

from . import symx as sx


def _arr(x):
    return sx.arr(x) if sx.is_symbolic(x) else np.asarray(x, dtype=object)


def is_mcm(op):
    return type(op).__name__ in ("MidMeasure", "MidMeasureMP", "PauliMeasure") or op.name == "MidMeasureMP"


def is_pauli_measure(op):
    return type(op).__name__ == "PauliMeasure"


_P2 = {"I": np.array([[1, 0], [0, 1]], dtype=object), "X": np.array([[0, 1], [1, 0]], dtype=object), "Y": np.array([[0, -1j], [1j, 0]], dtype=object), "Z": np.array([[1, 0], [0, -1]], dtype=object)}


def _pauli_word_matrix(word, wires, W):
    M = np.array([[1]], dtype=object)
    for c in word:
        M = np.kron(M, _P2[c])
    return sx.embed(M, list(wires), W)


def general_branch(tape, W, assignment, psi0=None):
    """like branch_state, but the outcome assigned to a measurement may be a solver term m with m*(m-1) == 0: the projection is
    written as (1-m)*P0 + m*P1 (computational measurement) resp. (1 + (1-2m) P)/2 (Pauli-product measurement); a Conditional is
    applied iff bool(condition) - on solver terms that is a solver-decided fork of the execution."""
    n = len(W)
    if psi0 is None:
        psi = np.zeros(2 ** n, dtype=object)
        psi[0] = 1
    else:
        psi = np.array(psi0, dtype=object)
    for op in tape.operations:
        if is_pauli_measure(op):
            m = assignment[op]
            word = op.hyperparameters.get("pauli_word") if hasattr(op, "hyperparameters") and "pauli_word" in op.hyperparameters else op.pauli_word
            Ppsi = np.dot(_pauli_word_matrix(word, op.wires, W), psi)
            psi = (psi + Ppsi * (1 - 2 * m)) * 0.5
            continue
        if is_mcm(op):
            m = assignment[op]
            pos = W.index(op.wires[0])
            p0, p1 = _project(psi, pos, n, 0, op.reset), _project(psi, pos, n, 1, op.reset)
            psi = p0 * (1 - m) + p1 * m
            continue
        if is_cond(op):
            val = op.meas_val.concretize(assignment)
            if not bool(val):
                continue
            op = op.base
        if op.name in ("Snapshot", "Barrier", "WireCut"):
            continue
        ws = list(op.wires)
        if not ws:
            M = _arr(qp.matrix(op, wire_order=W[:1]))
            psi = np.dot(sx.embed(M, W[:1], W), psi)
            continue
        psi = np.dot(sx.embed(_arr(qp.matrix(op, wire_order=ws)), ws, W), psi)
    return psi


def is_cond(op):
    return type(op).__name__ == "Conditional"


def mcms_of(tape):
    return [op for op in tape.operations if is_mcm(op)]


def conj(x):
    return x.conjugate() if isinstance(x, sx.SymC) else np.conj(x)


def _project(psi, pos, n, v, reset):
    out = np.zeros_like(psi)
    for i in range(2 ** n):
        bit = (i >> (n - 1 - pos)) & 1
        if bit != v:
            continue
        j = i
        if reset and v == 1:
            j = i & ~(1 << (n - 1 - pos))
        out[j] = out[j] + psi[i]
    return out


def branch_state(tape, W, assignment, psi0=None):
    """assignment: {mcm op: 0/1}.  -> unnormalised branch state, or None when a postselected measurement contradicts the assignment"""
    n = len(W)
    if psi0 is None:
        psi = np.zeros(2 ** n, dtype=object)
        psi[0] = 1
    else:
        psi = np.array(psi0, dtype=object)
    for op in tape.operations:
        if is_mcm(op):
            v = assignment[op]
            if op.postselect is not None and op.postselect != v:
                return None
            psi = _project(psi, W.index(op.wires[0]), n, v, op.reset)
            continue
        if is_cond(op):
            if not bool(op.meas_val.concretize(assignment)):
                continue
            op = op.base
        if op.name in ("Snapshot", "Barrier", "WireCut"):
            continue
        ws = list(op.wires)
        if not ws:
            M = _arr(qp.matrix(op, wire_order=W[:1]))
            psi = np.dot(sx.embed(M, W[:1], W), psi)
            continue
        psi = np.dot(sx.embed(_arr(qp.matrix(op, wire_order=ws)), ws, W), psi)
    return psi


def branches(tape, W):
    """[(assignment, unnormalised state)] over all outcome assignments consistent with postselection"""
    ms = mcms_of(tape)
    out = []
    for vals in itertools.product([0, 1], repeat=len(ms)):
        asg = dict(zip(ms, vals))
        psi = branch_state(tape, W, asg)
        if psi is not None:
            out.append((asg, psi))
    return out


def norm2(psi):
    return sum((conj(x) * x for x in psi), 0)


def obs_expect(psi, O):
    v = np.dot(O, psi)
    return sum((conj(a) * b for a, b in zip(psi, v)), 0)


def exact_results(tape, W):
    """-> (list of numerators (arrays), total weight): result_k == numerator_k / weight, except variances which are returned as
    (E2 numerator, E1 numerator) tuples: var == E2/weight - (E1/weight)^2"""
    from . import simx

    brs = branches(tape, W)
    total = sum((norm2(psi) for _, psi in brs), 0)
    n = len(W)
    outs = []
    for mp in tape.measurements:
        kind = type(mp).__name__
        mv = getattr(mp, "mv", None)
        if mv is not None:
            mvs = mv if isinstance(mv, (list, tuple)) else [mv]
            if kind == "ProbabilityMP":
                # joint distribution over the listed (single-measurement) values
                k = len(mvs)
                acc = np.zeros(2 ** k, dtype=object)
                for asg, psi in brs:
                    idx = 0
                    for m in mvs:
                        idx = (idx << 1) | int(m.concretize(asg))
                    acc[idx] = acc[idx] + norm2(psi)
                outs.append(("ratio", acc))
            elif kind == "ExpectationMP":
                outs.append(("ratio", np.array(sum((norm2(psi) * mvs[0].concretize(asg) for asg, psi in brs), 0), dtype=object)))
            elif kind == "VarianceMP":
                e1 = sum((norm2(psi) * mvs[0].concretize(asg) for asg, psi in brs), 0)
                e2 = sum((norm2(psi) * (mvs[0].concretize(asg) ** 2) for asg, psi in brs), 0)
                outs.append(("var", (e2, e1)))
            else:
                raise sx.Unsupported(kind + " of a measurement value")
            continue
        if kind == "ExpectationMP":
            O = sx.embed(_arr(qp.matrix(mp.obs, wire_order=list(mp.obs.wires))), list(mp.obs.wires), W)
            outs.append(("ratio", np.array(sum((obs_expect(psi, O) for _, psi in brs), 0), dtype=object)))
        elif kind == "VarianceMP":
            O = sx.embed(_arr(qp.matrix(mp.obs, wire_order=list(mp.obs.wires))), list(mp.obs.wires), W)
            e1 = sum((obs_expect(psi, O) for _, psi in brs), 0)
            e2 = sum((obs_expect(psi, np.dot(O, O)) for _, psi in brs), 0)
            outs.append(("var", (e2, e1)))
        elif kind == "ProbabilityMP":
            ws = list(mp.wires) or list(W)
            pos = [W.index(w) for w in ws]
            acc = np.zeros(2 ** len(ws), dtype=object)
            for _, psi in brs:
                for i in range(2 ** n):
                    idx = 0
                    for q in pos:
                        idx = (idx << 1) | ((i >> (n - 1 - q)) & 1)
                    acc[idx] = acc[idx] + conj(psi[i]) * psi[i]
            outs.append(("ratio", acc))
        else:
            raise sx.Unsupported(kind)
    return outs, total
