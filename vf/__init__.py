"""verif framework: solver-based checking of the real PennyLane code (see /verif/DESIGN.md)."""
