"""Lifted execution of integer/bit code over z3 terms (numpy object arrays of Bit / SInt).

Same scheme as vf.symx for reals: the REAL library function is executed on scalar objects whose
operators build z3 terms; `bool(x)` / `int(x)` / `x.__index__()` on a symbolic value *forks*: the
harness is re-executed under a decision prefix, a branch is admitted only if z3 finds the path
condition satisfiable.  Obligations are z3 formulas proved under the path condition (unsat of the
negation); a model gives concrete inputs that are replayed on the unlifted function.
"""
from __future__ import annotations

import time

import numpy as np
import z3


class PathLimit(Exception):
    pass


class BSession:
    def __init__(self, prefix=(), timeout_ms=20000):
        self.prefix = list(prefix)
        self.trace = []
        self.pathcond = []
        self.pending = []
        self.assume_ = []
        self.vars = {}
        self.decisions = 0
        self.solver_s = 0.0
        self.timeout_ms = timeout_ms
        self._solver = z3.Solver()
        self._solver.set("timeout", 5000)

    # ---- variables
    def bit(self, name):
        if name not in self.vars:
            self.vars[name] = z3.Bool(name)
        return Bit(self, self.vars[name])

    def bits(self, name, shape):
        a = np.empty(shape, dtype=object)
        for idx in np.ndindex(*shape):
            a[idx] = self.bit(name + "_" + "_".join(map(str, idx)))
        return a

    def int(self, name, lo=None, hi=None):
        if name not in self.vars:
            self.vars[name] = z3.Int(name)
            if lo is not None:
                self.assume(self.vars[name] >= lo)
            if hi is not None:
                self.assume(self.vars[name] <= hi)
        return SInt(self, self.vars[name])

    def assume(self, z):
        self.assume_.append(z)
        self._solver.add(z)

    # ---- forking
    def decide(self, cond):
        cond = z3.simplify(cond)
        if z3.is_true(cond):
            return True
        if z3.is_false(cond):
            return False
        i = len(self.trace)
        self.decisions += 1
        if i < len(self.prefix):
            val = self.prefix[i]
        else:
            t = time.time()
            can_t = self._feasible(cond)
            can_f = self._feasible(z3.Not(cond))
            self.solver_s += time.time() - t
            if can_t and can_f:
                val = True
                self.pending.append(self.trace + [False])
            elif can_t:
                val = True
            else:
                val = False
        self.trace.append(val)
        c = cond if val else z3.Not(cond)
        self.pathcond.append(c)
        self._solver.add(c)
        return val

    def _feasible(self, cond):
        self._solver.push()
        self._solver.add(cond)
        r = self._solver.check()
        self._solver.pop()
        if r == z3.unknown:  # 5 s budget exhausted (loaded machine): decide with a fresh solver and a long budget before admitting the branch
            s2 = z3.Solver()
            s2.set("timeout", 120000)
            s2.add(*self.assume_)
            s2.add(*self.pathcond)
            s2.add(cond)
            r = s2.check()
        return r != z3.unsat

    # ---- queries
    def prove(self, claim, timeout_ms=None):
        """-> ('unsat'|'sat'|'unknown', model or None, seconds)"""
        s = z3.Solver()
        s.set("timeout", timeout_ms or self.timeout_ms)
        s.add(*self.assume_)
        s.add(*self.pathcond)
        s.add(z3.Not(z(claim)))
        t = time.time()
        r = s.check()
        dt = time.time() - t
        self.solver_s += dt
        if r == z3.unsat:
            return "unsat", None, dt
        if r == z3.sat:
            return "sat", s.model(), dt
        return "unknown", None, dt

    def reachable(self):
        for budget in (5000, 120000):
            s = z3.Solver()
            s.set("timeout", budget)
            s.add(*self.assume_)
            s.add(*self.pathcond)
            r = str(s.check())
            if r != "unknown":
                break
        return r

    def model_values(self, model):
        out = {}
        for name, v in self.vars.items():
            mv = model.eval(v, model_completion=True)
            if z3.is_bool(v):
                out[name] = 1 if z3.is_true(mv) else 0
            else:
                out[name] = mv.as_long()
        return out


def z(x):
    """z3 Bool of a Bit / python bool / z3 expr"""
    if isinstance(x, Bit):
        return x.z
    if isinstance(x, SInt):
        return x.z != 0
    if isinstance(x, (bool, np.bool_)):
        return z3.BoolVal(bool(x))
    if isinstance(x, (int, np.integer)):
        return z3.BoolVal(bool(x))
    return x


def zi(x):
    """z3 Int of an SInt / Bit / python int"""
    if isinstance(x, SInt):
        return x.z
    if isinstance(x, Bit):
        return z3.If(x.z, 1, 0)
    if isinstance(x, (bool, np.bool_)):
        return z3.IntVal(1 if x else 0)
    if isinstance(x, (int, np.integer)):
        return z3.IntVal(int.__index__(x) if type(x) is int else int(x))
    if isinstance(x, z3.ExprRef):
        return z3.If(x, 1, 0) if z3.is_bool(x) else x
    raise TypeError(type(x))


def _session(*xs):
    for x in xs:
        if isinstance(x, (Bit, SInt)):
            return x.S
    return None


class Bit:
    """an element of GF(2) / a truth value.  ^ xor, & * and, | or, ~ not; + - give SInt."""

    __slots__ = ("S", "z")
    __array_priority__ = 0

    def __init__(self, S, zexpr):
        self.S = S
        self.z = zexpr

    @staticmethod
    def lift(S, x):
        if isinstance(x, Bit):
            return x
        if isinstance(x, SInt):
            return Bit(S, x.z != 0)
        if isinstance(x, (bool, np.bool_, int, np.integer)):
            if int(x) not in (0, 1):
                raise TypeError(f"not a bit: {x!r}")
            return Bit(S, z3.BoolVal(bool(x)))
        raise TypeError(type(x))

    def _c(self):
        zz = z3.simplify(self.z)
        if z3.is_true(zz):
            return 1
        if z3.is_false(zz):
            return 0
        return None

    def __bool__(self):
        return self.S.decide(self.z)

    def __index__(self):
        return 1 if self.S.decide(self.z) else 0

    __int__ = __index__

    def __xor__(self, o):
        if isinstance(o, SInt):
            return NotImplemented
        o = Bit.lift(self.S, o)
        return Bit(self.S, z3.simplify(z3.Xor(self.z, o.z)))

    __rxor__ = __xor__

    def __and__(self, o):
        o = Bit.lift(self.S, o)
        return Bit(self.S, z3.simplify(z3.And(self.z, o.z)))

    __rand__ = __and__

    def __or__(self, o):
        o = Bit.lift(self.S, o)
        return Bit(self.S, z3.simplify(z3.Or(self.z, o.z)))

    __ror__ = __or__

    def __invert__(self):
        return Bit(self.S, z3.simplify(z3.Not(self.z)))

    def __mul__(self, o):
        if isinstance(o, Bit) or (not isinstance(o, SInt) and isinstance(o, (int, np.integer, bool, np.bool_)) and int(o) in (0, 1)):
            return self & o
        return SInt(self.S, zi(self)) * o

    __rmul__ = __mul__

    def __add__(self, o):
        return SInt(self.S, zi(self)) + o

    __radd__ = __add__

    def __sub__(self, o):
        return SInt(self.S, zi(self)) - o

    def __rsub__(self, o):
        return SInt(self.S, zi(o)) - self

    def __mod__(self, m):
        return SInt(self.S, zi(self)) % m

    def __eq__(self, o):
        if isinstance(o, (Bit, bool, np.bool_)) or (not isinstance(o, SInt) and isinstance(o, (int, np.integer)) and int(o) in (0, 1)):
            return Bit(self.S, z3.simplify(self.z == Bit.lift(self.S, o).z))
        if isinstance(o, (SInt, int, np.integer)):
            return Bit(self.S, z3.simplify(zi(self) == zi(o)))
        return NotImplemented

    def __ne__(self, o):
        e = self.__eq__(o)
        return e if e is NotImplemented else ~e

    def __lt__(self, o):
        return SInt(self.S, zi(self)) < o

    def __gt__(self, o):
        return SInt(self.S, zi(self)) > o

    def __le__(self, o):
        return SInt(self.S, zi(self)) <= o

    def __ge__(self, o):
        return SInt(self.S, zi(self)) >= o

    def __hash__(self):
        return hash(self.z)

    def __repr__(self):
        return f"Bit({self.z})"

    def copy(self):
        return self


SENTINEL = 1000003  # concrete value carried by the int base class; a leak of it cannot satisfy a symbolic identity


class SInt(int):
    """mathematical integer (z3 Int).  Comparisons give Bit; int()/index forks by enumerating feasible values.

    Subclass of `int` so that `isinstance(x, int)` guards in library code accept it.  Every arithmetic/comparison
    operator is overridden; operators that are not modelled raise TypeError instead of silently using the base value.
    C-level consumers that read the int payload directly (range(), list repetition) would see SENTINEL: such a leak
    yields results that do not depend on the symbol, hence a failing identity whose model does not replay (inconclusive),
    never a false proof."""

    def __new__(cls, S, zexpr):
        o = int.__new__(cls, SENTINEL)
        o.S = S
        o.z = zexpr
        return o

    def __init__(self, S, zexpr):
        pass

    def _b(self, o, f):
        if isinstance(o, float):
            return NotImplemented
        try:
            return SInt(self.S, z3.simplify(f(self.z, zi(o))))
        except TypeError:
            return NotImplemented

    def __add__(self, o):
        return self._b(o, lambda a, b: a + b)

    __radd__ = __add__

    def __sub__(self, o):
        return self._b(o, lambda a, b: a - b)

    def __rsub__(self, o):
        return self._b(o, lambda a, b: b - a)

    def __mul__(self, o):
        return self._b(o, lambda a, b: a * b)

    __rmul__ = __mul__

    def __neg__(self):
        return SInt(self.S, -self.z)

    def __pos__(self):
        return self

    def _nonzero_divisor(self, m):
        """Python raises ZeroDivisionError: fork on it"""
        if isinstance(m, SInt):
            if self.S.decide(m.z == 0):
                raise ZeroDivisionError("integer division or modulo by zero")
        elif isinstance(m, int) and not isinstance(m, bool) and int.__index__(m) == 0 and type(m) is int:
            raise ZeroDivisionError("integer division or modulo by zero")

    @staticmethod
    def _floordiv(a, b):
        # z3's Int div is Euclidean (remainder >= 0); Python's // is floor division
        return z3.If(b > 0, a / b, (-a) / (-b))

    def __floordiv__(self, m):
        if isinstance(m, float):
            return NotImplemented
        self._nonzero_divisor(m)
        return self._b(m, SInt._floordiv)

    def __rfloordiv__(self, m):
        if isinstance(m, float):
            return NotImplemented
        self._nonzero_divisor(self)
        return self._b(m, lambda a, b: SInt._floordiv(b, a))

    def __mod__(self, m):
        if isinstance(m, float):
            return NotImplemented
        self._nonzero_divisor(m)
        return self._b(m, lambda a, b: a - b * SInt._floordiv(a, b))

    def __rmod__(self, m):
        if isinstance(m, float):
            return NotImplemented
        self._nonzero_divisor(self)
        return self._b(m, lambda a, b: b - a * SInt._floordiv(b, a))

    def __pow__(self, n, mod=None):
        if mod is not None or isinstance(n, SInt) or not isinstance(n, int) or not (0 <= n <= 16):
            raise TypeError("only small constant non-negative powers of symbolic integers are modelled")
        out = SInt(self.S, z3.IntVal(1))
        for _ in range(n):
            out = out * self
        return out

    def _unsupported(self, *a, **k):
        raise TypeError("operation not modelled on symbolic integers")

    __truediv__ = __rtruediv__ = __rpow__ = __lshift__ = __rshift__ = __rlshift__ = __rrshift__ = _unsupported
    __and__ = __or__ = __xor__ = __rand__ = __ror__ = __rxor__ = __invert__ = __divmod__ = __rdivmod__ = _unsupported
    __float__ = __round__ = __trunc__ = __floor__ = __ceil__ = _unsupported

    def __abs__(self):
        return SInt(self.S, z3.If(self.z >= 0, self.z, -self.z))

    def _cmp(self, o, f):
        try:
            return Bit(self.S, z3.simplify(f(self.z, zi(o))))
        except TypeError:
            return NotImplemented

    def __eq__(self, o):
        return self._cmp(o, lambda a, b: a == b)

    def __ne__(self, o):
        return self._cmp(o, lambda a, b: a != b)

    def __lt__(self, o):
        return self._cmp(o, lambda a, b: a < b)

    def __le__(self, o):
        return self._cmp(o, lambda a, b: a <= b)

    def __gt__(self, o):
        return self._cmp(o, lambda a, b: a > b)

    def __ge__(self, o):
        return self._cmp(o, lambda a, b: a >= b)

    def __bool__(self):
        return self.S.decide(self.z != 0)

    def concretize(self, lo=-64, hi=64):
        """fork on the value (bounded enumeration through the solver)"""
        zz = z3.simplify(self.z)
        if z3.is_int_value(zz):
            return zz.as_long()
        for v in range(lo, hi + 1):
            if self.S.decide(self.z == v):
                return v
        raise PathLimit(f"integer outside [{lo},{hi}]")

    def __index__(self):
        return self.concretize()

    def __int__(self):
        return self.concretize()

    def __hash__(self):
        return hash(self.z)

    def __repr__(self):
        return f"SInt({self.z})"

    __str__ = __repr__

    def __format__(self, spec):
        return repr(self)

    def __reduce__(self):
        raise TypeError("symbolic integers are not picklable")


def explore(build, max_paths=4096):
    """build(S) executed once per feasible decision path.  -> list of (S, value)"""
    results = []
    pending = [[]]
    while pending:
        prefix = pending.pop()
        S = BSession(prefix)
        val = build(S)
        results.append((S, val))
        pending.extend(S.pending)
        if len(results) >= max_paths and pending:
            raise PathLimit(f"more than {max_paths} paths")
    return results


def explore_iter(build, max_paths=4096):
    """streaming variant of explore: yields (S, value) per feasible path without keeping them"""
    pending = [[]]
    n = 0
    while pending:
        prefix = pending.pop()
        S = BSession(prefix)
        val = build(S)
        n += 1
        pending.extend(S.pending)
        yield S, val
        if n >= max_paths and pending:
            raise PathLimit(f"more than {max_paths} paths")


def zand(xs):
    xs = [z(x) for x in xs]
    return z3.And(*xs) if xs else z3.BoolVal(True)


def zor(xs):
    xs = [z(x) for x in xs]
    return z3.Or(*xs) if xs else z3.BoolVal(False)


def zxor(xs):
    out = z3.BoolVal(False)
    for x in xs:
        out = z3.Xor(out, z(x))
    return out


class _IntShimMeta(type):
    def __instancecheck__(cls, x):
        return isinstance(x, int)

    def __call__(cls, x=0, *a):
        if isinstance(x, SInt):
            return x
        if isinstance(x, Bit):
            return SInt(x.S, zi(x))
        return int(x, *a)


class int_shim(metaclass=_IntShimMeta):
    """stand-in for the builtin `int` inside a module namespace: int(x) keeps symbolic integers symbolic,
    isinstance(x, int) behaves as usual (SInt is an int subclass)"""
