"""Obligation helpers on top of vf.symx: prove / refute+replay / self-validate."""
from __future__ import annotations

import math
import time

import numpy as np

from . import symx as sx
from . import poly as P
from .common import DISCHARGED, VIOLATED, INCONCLUSIVE, UNSUPPORTED, HARNESS_ERROR, HarnessError

_POINTS = [0.37, -1.21, 2.53, 0.911, -2.87, 1.63, -0.29, 3.01, -1.77, 0.55, 2.2, -0.83]


def test_points(names, k):
    """k-th deterministic assignment of angles to parameter names"""
    return {n: _POINTS[(i * 5 + k * 3 + 1) % len(_POINTS)] * (1 + 0.1 * k) for i, n in enumerate(sorted(names))}


def validate(S, sym, float_fn, names=None, free_names=(), n=2, tol=1e-8, what=""):
    """Self-validation: the symbolic value, evaluated numerically, must equal the float execution of
    the same real function without symbolic inputs.  Raises HarnessError (exit 2), never a verdict."""
    names = list(S.params) if names is None else list(names)
    for k in range(n):
        th = test_points(names, k)
        fr = {nm: _POINTS[(j * 7 + k + 2) % len(_POINTS)] for j, nm in enumerate(sorted(free_names))}
        vals = sx.assignment(S, th, fr)
        got = sx.evalf(S, sym, vals)
        exp = np.asarray(float_fn(th, fr) if free_names else float_fn(th), dtype=complex)
        if got.shape != exp.shape:
            try:
                exp = exp.reshape(got.shape)
            except ValueError:
                raise HarnessError(f"self-validation shape mismatch {what}: {got.shape} vs {exp.shape}")
        err = float(np.max(np.abs(got - exp))) if got.size else 0.0
        if not (err <= tol * max(1.0, float(np.max(np.abs(exp))) if exp.size else 1.0)):
            raise HarnessError(f"self-validation mismatch {what}: |sym-float|={err:.3e} at {th} {fr}")
    return True


def symbols_of(S, polys):
    used = set()
    for p in polys:
        used |= P.variables(p)
    return sorted(S.V.names[i] for i in used if S.V.kind[i] not in ("unit", "const", "pi"))


def _concrete(replay, model):
    """run a replay on plain floats with no current symbolic session (the lifting shims fall back to the library's own behaviour)"""
    cur = sx.CUR
    sx.CUR = None
    try:
        return replay(model)
    finally:
        sx.CUR = cur


def prove(S, name, A, B=None, timeout=30, tol=None, replay=None, signature=None, extra=(), detail=None, twin=True, over=None):
    """Returns one obligation record.  replay(model)->(bool reproduces, payload) is run on `sat`."""
    t0 = time.time()
    try:
        polys = sx._collect_polys(S, A, B)
    except sx.Unsupported as e:
        return {"name": name, "status": UNSUPPORTED, "detail": str(e)}
    syms = symbols_of(S, polys)
    if not syms:
        # the two sides cancel syntactically: the obligation still ranges over the symbols that occur on either side
        try:
            both = sx._collect_polys(S, A) + (sx._collect_polys(S, B) if B is not None else [])
            syms = symbols_of(S, both)
        except Exception:  # noqa: BLE001
            syms = []
    if not syms and over:
        # `over`: polynomials (or SymC terms) the obligation was DERIVED from, when the polynomial arithmetic already reduced the obligation
        # itself to zero (its normal form decides the identity): the claim still ranges over their symbols
        try:
            syms = symbols_of(S, [x.p if isinstance(x, sx.SymC) else x for x in over if isinstance(x, (sx.SymC, dict))])
        except Exception:  # noqa: BLE001
            syms = []
    r = sx.prove_zero(S, polys, extra=extra, timeout_s=timeout, tol=tol)
    rec = {"name": name, "symbols": syms, "solver": f"z3:{r.status}" + (f" ({r.note.strip()})" if r.note.strip() else ""),
           "solver_s": round(r.time_s, 4), "time_s": round(time.time() - t0, 4), "queries": 1,
           "nontrivial": bool(syms)}
    if detail:
        rec["detail"] = detail
    if S.assumed:
        rec["path_assumptions"] = list(S.assumed)
    if r.status == "unsat":
        rec["status"] = DISCHARGED
        if twin and (S.constraints or S.pathcond or extra):
            tw = sx.satisfiable(S, extra=extra, used_polys=polys)
            rec["queries"] = 2
            rec["twin"] = tw
            if tw == "unsat":
                rec["status"] = HARNESS_ERROR
                rec["detail"] = "reachability twin unsat: constraints/path condition contradictory (vacuous obligation)"
        return rec
    if r.status == "sat":
        rec["model"] = {k: v for k, v in (r.model or {}).get("params", {}).items()}
        if replay is None:
            rec["status"] = INCONCLUSIVE
            rec["detail"] = "sat model but no replay available"
            return rec
        try:
            ok, payload = _concrete(replay, r.model)
        except Exception as e:  # replay itself failed: not a verdict
            rec["status"] = INCONCLUSIVE
            rec["detail"] = f"replay raised {e!r}"
            return rec
        if ok:
            rec["status"] = VIOLATED
            rec["replay"] = payload
            rec["signature"] = signature or name
            rec["detail"] = (detail + "; " if detail else "") + f"counterexample reproduces on the unmodified library: {payload.get('observed', '')}"
        else:
            rec["status"] = INCONCLUSIVE
            rec["detail"] = "solver model does not reproduce in floating point (spurious or inside tolerance)"
        return rec
    rec["status"] = INCONCLUSIVE
    rec["detail"] = f"solver returned unknown within {timeout}s: {r.note}"
    return rec


def prove_claim(S, name, zclaim, replay=None, signature=None, timeout=60, symbols=None, used_polys=()):
    """z3 validity of an arbitrary Boolean claim (inequalities, ranges) under the session constraints and the path condition"""
    import z3

    t0 = time.time()
    sol = z3.Solver()
    sol.set("timeout", int(timeout * 1000))
    used = set()
    for p in used_polys:
        used |= sx.P.variables(p)
    neg = z3.Not(zclaim)
    for e in [neg] + list(S.pathcond):
        for v in sx._z3_var_names(e):
            i = S.V.index.get(v)
            if i is not None:
                used.add(i)
    sol.add(*S.z3constraints(used if used else None))
    sol.add(*S.pathcond)
    sol.add(neg)
    r = str(sol.check())
    rec = {"name": name, "symbols": symbols or sorted(S.V.names[i] for i in used if i)[:12], "solver": f"z3:{r}", "solver_s": round(time.time() - t0, 4), "time_s": round(time.time() - t0, 4),
           "queries": 1, "nontrivial": True}
    if S.assumed:
        rec["path_assumptions"] = list(S.assumed)
    if r == "unsat":
        rec["status"] = DISCHARGED
        tw = sx.satisfiable(S)
        rec["queries"] = 2
        if tw == "unsat":
            rec["status"] = HARNESS_ERROR
            rec["detail"] = "reachability twin unsat: constraints/path condition contradictory (vacuous obligation)"
        return rec
    if r == "sat":
        model = sx.model_floats(S, sol.model())
        rec["model"] = dict(model.get("vars", {}))
        if replay is None:
            rec["status"] = INCONCLUSIVE
            rec["detail"] = "sat model but no replay available"
            return rec
        try:
            ok, payload = _concrete(replay, model)
        except Exception as e:
            rec["status"] = INCONCLUSIVE
            rec["detail"] = f"replay raised {e!r}"
            return rec
        if ok:
            rec.update(status=VIOLATED, replay=payload, signature=signature or name, detail=f"counterexample reproduces on the unmodified library: {payload.get('observed', '')}")
        else:
            rec.update(status=INCONCLUSIVE, detail="solver model does not reproduce in floating point (spurious or inside tolerance)")
        return rec
    rec["status"] = INCONCLUSIVE
    rec["detail"] = f"solver returned unknown within {timeout}s"
    return rec


def unsupported(name, e):
    return {"name": name, "status": UNSUPPORTED, "detail": f"{type(e).__name__}: {e}"[:300]}


def harness_error(name, e):
    import traceback

    return {"name": name, "status": HARNESS_ERROR, "detail": f"{e!r}\n" + traceback.format_exc(limit=6)}


def run_instance(name, build, consume, D=None, default_D=2, abstract=False, max_paths=32):
    """build(S)->value per path, consume(S, value, path_index)->records.  Wraps Unsupported."""
    recs = []
    try:
        paths = sx.explore(build, D=D, default_D=default_D, abstract=abstract, max_paths=max_paths)
    except (sx.Unsupported, sx.PathLimit) as e:
        return [unsupported(name, e)]
    except HarnessError as e:
        return [harness_error(name, e)]
    for i, (S, val) in enumerate(paths):
        if S.pathcond and len(paths) > 1:
            # a fork is taken when the quick feasibility query answers sat OR unknown; a path whose full condition is refuted
            # with a larger budget is unreachable and carries no obligations
            try:
                if sx.satisfiable(S, timeout_s=20) == "unsat":
                    continue
            except Exception:  # noqa: BLE001 - the check is an optimisation only
                pass
        try:
            recs.extend(consume(S, val, i) or [])
        except sx.Unsupported as e:
            recs.append(unsupported(f"{name}#path{i}", e))
        except HarnessError as e:
            recs.append(harness_error(f"{name}#path{i}", e))
    return recs


def mat_of_ops(ops, wire_order):
    import pennylane as qp

    M = None
    for op in ops:
        m = qp.matrix(op, wire_order=wire_order)
        M = m if M is None else np.dot(m, M)
    if M is None:
        M = np.eye(2 ** len(wire_order))
    return M
