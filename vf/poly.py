"""Sparse polynomials over Q in real variables plus the imaginary unit I (I*I = -1) and algebraic
constants (r2*r2 = 2, ...).  A polynomial is a dict {monomial: Fraction}; a monomial is a sorted
tuple of (var_index, exponent).  Only *constants* are reduced (I, sqrt2, sqrt3, sqrt(2+sqrt2), ...);
relations between symbolic variables (c^2+s^2=1, q^2=x, d*y=x) are left to the SMT solver.
"""
from __future__ import annotations

from fractions import Fraction as F
import math


class Vars:
    """Variable table.  Index 0 is always the imaginary unit."""

    def __init__(self):
        self.names = ["I"]
        self.index = {"I": 0}
        self.kind = ["unit"]
        self.red = {0: {(): F(-1)}}  # var -> polynomial equal to var**2
        self.meta = [None]

    def get(self, name, kind="free", meta=None):
        i = self.index.get(name)
        if i is None:
            i = len(self.names)
            self.names.append(name)
            self.index[name] = i
            self.kind.append(kind)
            self.meta.append(meta)
        return i

    def const(self, name, square_poly):
        i = self.get(name, "const")
        self.red[i] = square_poly
        return i


ZERO = {}
ONE = {(): F(1)}


def const(x):
    x = F(x)
    return {(): x} if x else {}


def var(i):
    return {((i, 1),): F(1)}


def add(p, q):
    if not p:
        return q
    if not q:
        return p
    if len(p) < len(q):
        p, q = q, p
    out = dict(p)
    for m, c in q.items():
        v = out.get(m)
        if v is None:
            out[m] = c
        else:
            v = v + c
            if v:
                out[m] = v
            else:
                del out[m]
    return out


def neg(p):
    return {m: -c for m, c in p.items()}


def sub(p, q):
    return add(p, neg(q))


def scale(p, k):
    if not k:
        return {}
    if k == 1:
        return p
    return {m: c * k for m, c in p.items()}


def _mmul(a, b):
    if not a:
        return b
    if not b:
        return a
    d = dict(a)
    for v, e in b:
        d[v] = d.get(v, 0) + e
    return tuple(sorted(d.items()))


def mul(p, q, vars_: Vars):
    if not p or not q:
        return {}
    out = {}
    red = vars_.red
    need = False
    for ma, ca in p.items():
        for mb, cb in q.items():
            m = _mmul(ma, mb)
            c = ca * cb
            v = out.get(m)
            if v is None:
                out[m] = c
            else:
                v = v + c
                if v:
                    out[m] = v
                else:
                    del out[m]
            if not need:
                for vv, e in m:
                    if e >= 2 and vv in red:
                        need = True
                        break
    if need:
        out = reduce_consts(out, vars_)
    return out


def reduce_consts(p, vars_: Vars):
    red = vars_.red
    changed = True
    while changed:
        changed = False
        out = {}
        for m, c in p.items():
            hit = None
            for vv, e in m:
                if e >= 2 and vv in red:
                    hit = (vv, e)
                    break
            if hit is None:
                v = out.get(m)
                if v is None:
                    out[m] = c
                else:
                    v += c
                    if v:
                        out[m] = v
                    else:
                        del out[m]
                continue
            changed = True
            vv, e = hit
            rest = tuple((a, b) for a, b in m if a != vv)
            if e % 2:
                rest = _mmul(rest, ((vv, 1),))
            term = {rest: c}
            sq = red[vv]
            for _ in range(e // 2):
                term = _mul_raw(term, sq)
            for m2, c2 in term.items():
                v = out.get(m2)
                if v is None:
                    out[m2] = c2
                else:
                    v += c2
                    if v:
                        out[m2] = v
                    else:
                        del out[m2]
        p = out
    return p


def _mul_raw(p, q):
    out = {}
    for ma, ca in p.items():
        for mb, cb in q.items():
            m = _mmul(ma, mb)
            v = out.get(m, 0) + ca * cb
            if v:
                out[m] = v
            else:
                out.pop(m, None)
    return out


def power(p, n, vars_):
    assert n >= 0
    r = ONE
    b = p
    while n:
        if n & 1:
            r = mul(r, b, vars_)
        n >>= 1
        if n:
            b = mul(b, b, vars_)
    return r


def split_complex(p):
    """p = re + I*im with re, im free of I."""
    re, im = {}, {}
    for m, c in p.items():
        if m and m[0][0] == 0:
            im[m[1:]] = c
        else:
            re[m] = c
    return re, im


def conj(p):
    return {m: (-c if (m and m[0][0] == 0) else c) for m, c in p.items()}


def is_const(p):
    return not p or (len(p) == 1 and () in p)


def const_value(p):
    return p.get((), F(0)) if p else F(0)


def variables(p):
    s = set()
    for m in p:
        for v, _ in m:
            s.add(v)
    return s


def degree_in(p, v):
    d = 0
    for m in p:
        for vv, e in m:
            if vv == v and e > d:
                d = e
    return d


def subs_var(p, v, q, vars_):
    """substitute polynomial q for variable v"""
    out = {}
    cache = {0: ONE, 1: q}
    for m, c in p.items():
        e = 0
        rest = []
        for vv, ee in m:
            if vv == v:
                e = ee
            else:
                rest.append((vv, ee))
        if e == 0:
            out = add(out, {m: c})
            continue
        if e not in cache:
            cache[e] = power(q, e, vars_)
        out = add(out, mul({tuple(rest): c}, cache[e], vars_))
    return out


def diff(p, v):
    out = {}
    for m, c in p.items():
        for k, (vv, e) in enumerate(m):
            if vv == v:
                nm = m[:k] + (((vv, e - 1),) if e > 1 else ()) + m[k + 1:]
                out[nm] = out.get(nm, 0) + c * e
                if not out[nm]:
                    del out[nm]
                break
    return out


def evalf(p, values):
    """values: list/dict var_index -> complex/float"""
    tot = 0.0
    for m, c in p.items():
        t = c.numerator / c.denominator
        for v, e in m:
            t = t * values[v] ** e
        tot = tot + t
    return tot


def key(p):
    return tuple(sorted(p.items()))


def to_str(p, vars_, maxterms=12):
    if not p:
        return "0"
    parts = []
    for m, c in list(sorted(p.items()))[:maxterms]:
        mon = "*".join((vars_.names[v] + (f"^{e}" if e > 1 else "")) for v, e in m)
        parts.append(f"{c}" + ("*" + mon if mon else ""))
    s = " + ".join(parts)
    if len(p) > maxterms:
        s += f" + ...({len(p)} terms)"
    return s
