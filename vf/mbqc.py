"""Active-set interpreter for measurement-based circuits with SYMBOLIC measurement outcomes.

The state is a tensor with one axis per ACTIVE wire (object ndarray of solver terms).  A wire becomes active (in |0>) when an
operation first touches it and is dropped again when a mid-circuit measurement with reset returns it to |0>, so the width is the
number of simultaneously live qubits, not the number of wire labels.  Measurement outcomes are 0/1-valued solver terms m
(Session.bit: m*m is rewritten to m): a computational measurement replaces the state by (1-m)*<0|psi + m*<1|psi (unnormalised;
with reset the wire leaves the active set, without reset it stays in |m>), a classically controlled operation U with condition c
(a bit-valued polynomial in the outcomes, built by the library's own MeasurementValue processing function) is applied as
(1-c)*psi + c*U psi.  Nothing forks: the result is a polynomial in the outcome bits for all outcome vectors at once.
"""
from __future__ import annotations

import numpy as np
import pennylane as qp

from . import symx as sx
from . import dynsim


def _mat(op):
    ws = list(op.wires)
    M = qp.matrix(op, wire_order=ws)
    return sx.arr(M) if sx.is_symbolic(M) else np.asarray(M, dtype=object)


class ActiveSim:
    def __init__(self):
        self.wires = []
        self.psi = np.array(1, dtype=object).reshape(())
        self.peak = 0

    def ensure(self, w):
        if w not in self.wires:
            zero = np.array([1, 0], dtype=object)
            self.psi = np.tensordot(self.psi, zero, axes=0)
            self.wires.append(w)
            self.peak = max(self.peak, len(self.wires))

    def load(self, wires, vec):
        """put the given wires in the joint state `vec` (they must not be active yet)"""
        k = len(wires)
        t = np.asarray(vec, dtype=object).reshape((2,) * k)
        self.psi = np.tensordot(self.psi, t, axes=0)
        self.wires += list(wires)
        self.peak = max(self.peak, len(self.wires))

    def apply_matrix(self, M, ws):
        for w in ws:
            self.ensure(w)
        k = len(ws)
        axes = [self.wires.index(w) for w in ws]
        Mt = np.asarray(M, dtype=object).reshape((2,) * (2 * k))
        out = np.tensordot(Mt, self.psi, axes=(list(range(k, 2 * k)), axes))
        # result axes: the k output axes first, then the remaining axes in order
        rest = [i for i in range(len(self.wires)) if i not in axes]
        order = [None] * len(self.wires)
        for j, a in enumerate(axes):
            order[a] = j
        for j, a in enumerate(rest):
            order[a] = k + j
        self.psi = np.transpose(out, order)

    def apply_op(self, op, cond=None):
        if op.name in ("Identity", "Barrier", "Snapshot", "WireCut"):
            return
        if not len(op.wires):  # GlobalPhase: a scalar factor
            ph = _mat(qp.GlobalPhase(*op.data, wires=0))[0, 0]
            self.psi = self.psi * ph if cond is None else self.psi * (1 - cond) + self.psi * ph * cond
            return
        try:
            M = _mat(op)
        except Exception:  # noqa: BLE001 - composite preparation ops: use their decomposition
            for o in op.decomposition():
                self.apply_op(o, cond)
            return
        for w in op.wires:
            self.ensure(w)
        old = self.psi
        self.apply_matrix(M, list(op.wires))
        if cond is not None:
            self.psi = old * (1 - cond) + self.psi * cond

    def measure(self, w, m, reset):
        self.ensure(w)
        ax = self.wires.index(w)
        p0 = np.take(self.psi, 0, axis=ax)
        p1 = np.take(self.psi, 1, axis=ax)
        if reset:
            self.psi = p0 * (1 - m) + p1 * m
            self.wires.pop(ax)
        else:
            self.psi = np.stack([p0 * (1 - m), p1 * m], axis=ax)

    _DIAG = {"CZ", "PauliZ", "S", "T", "PhaseShift", "RZ", "Adjoint(S)", "Adjoint(T)", "Identity", "GlobalPhase", "ControlledPhaseShift", "CCZ", "IsingZZ", "MultiRZ"}

    def run(self, ops, outcome_of, lazy=True):
        """outcome_of(mcm op) -> bit term (or 0/1).  Conditions are evaluated through the library's MeasurementValue.concretize.
        lazy: operations are kept pending and applied only when a measurement (or the end) needs them, respecting dependencies
        (diagonal operations commute with each other; any other operation depends on every earlier operation on its wires).  This
        is a re-ordering of commuting operations only and keeps the number of simultaneously active wires small."""
        asg = {}
        pending = []  # (op, cond)

        def base_name(o):
            return o.name

        def depends(later, earlier):
            lw, ew = set(later.wires), set(earlier.wires)
            if not (lw & ew):
                return False
            return not (base_name(later) in self._DIAG and base_name(earlier) in self._DIAG)

        def flush_for(wires):
            """apply, in order, every pending op that must precede an operation on `wires`"""
            need = set()
            front = set(wires)
            # backward closure over the pending list
            for j in range(len(pending) - 1, -1, -1):
                o, _ = pending[j]
                if set(o.wires) & front:
                    need.add(j)
            changed = True
            while changed:
                changed = False
                for j in sorted(need, reverse=True):
                    for i in range(j - 1, -1, -1):
                        if i not in need and depends(pending[j][0], pending[i][0]):
                            need.add(i)
                            changed = True
            for j in sorted(need):
                o, c = pending[j]
                self.apply_op(o, cond=c)
            for j in sorted(need, reverse=True):
                pending.pop(j)

        def push(o, c=None):
            if lazy and len(o.wires):
                pending.append((o, c))
            else:
                if not len(o.wires):
                    self.apply_op(o, cond=c)
                else:
                    self.apply_op(o, cond=c)

        for op in ops:
            if op.name == "GraphStatePrep" or type(op).__name__ == "GraphStatePrep":
                for o in op.decomposition():
                    push(o)
                continue
            if dynsim.is_mcm(op) and not dynsim.is_pauli_measure(op):
                if op.postselect is not None:
                    raise sx.Unsupported("postselection in the MBQC interpreter")
                flush_for(list(op.wires))
                m = outcome_of(op)
                asg[op] = m
                self.measure(op.wires[0], m, op.reset)
                continue
            if dynsim.is_cond(op):
                aff = self._affine_condition(op) if op.base.name in ("PauliX", "PauliY", "PauliZ") else None
                if aff is not None:
                    # U^(c0 xor m_a xor m_b ...) == U^c0 U^m_a U^m_b ... for an involution U: one cheap single-bit conditional per term
                    c0, terms = aff
                    if c0:
                        push(op.base)
                    for mop in terms:
                        mv = asg[mop]
                        if isinstance(mv, (bool, np.bool_, int, np.integer)):
                            if mv:
                                push(op.base)
                        else:
                            push(op.base, mv)
                    continue
                c = op.meas_val.concretize(asg)
                if isinstance(c, (bool, np.bool_, int, np.integer)):
                    if c:
                        push(op.base)
                    continue
                if isinstance(c, sx.SymB):
                    raise sx.Unsupported("comparison-valued condition on symbolic outcomes")
                push(op.base, c)
                continue
            push(op)
        flush_for({w for o, _ in pending for w in o.wires})
        for o, c in pending:
            self.apply_op(o, cond=c)
        return asg

    @staticmethod
    def _affine_condition(op):
        """if the condition of `op` is an affine function over GF(2) of its measurements, c = c0 xor (xor of a subset), return
        (c0, [measurement ops of the subset]); verified on every input for <= 12 measurements, else on 400 random inputs"""
        import itertools
        import random

        mv = op.meas_val
        ms = list(mv.measurements)
        k = len(ms)
        f = mv.processing_fn
        try:
            c0 = int(bool(f(*([0] * k))))
            T = [i for i in range(k) if int(bool(f(*[1 if j == i else 0 for j in range(k)]))) != c0]
            pts = itertools.product([0, 1], repeat=k) if k <= 12 else ([random.Random(7 * t).randint(0, 1) for _ in range(k)] for t in range(400))
            for x in pts:
                want = c0
                for i in T:
                    want ^= x[i]
                if int(bool(f(*x))) != want:
                    return None
        except Exception:  # noqa: BLE001
            return None
        return c0, [ms[i] for i in T]

    def state_on(self, out_wires):
        """-> (tensor with the axes of out_wires first, list of the other active wires)"""
        for w in out_wires:
            self.ensure(w)
        idx = [self.wires.index(w) for w in out_wires]
        rest = [i for i in range(len(self.wires)) if i not in idx]
        return np.transpose(self.psi, idx + rest), [self.wires[i] for i in rest]
