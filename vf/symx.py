"""E1 `symx`: lifted execution of qp.math code over polynomial terms decided by z3 (QF_NRA).

A `SymC` is a complex scalar whose value is a polynomial (vf.poly) in real variables:
  * circle atoms  c_p = cos(theta_p / D_p), s_p = sin(theta_p / D_p)  with the constraint c^2+s^2=1,
  * free reals (coefficients, amplitudes, gradients, fresh sqrt/abs/division results with their
    defining constraints),
  * algebraic constants (sqrt2, sqrt3, sqrt(2+sqrt2), ... reduced eagerly) and the unit I.
While a value is still *affine* in the parameters it also carries the exact affine form
(sum q_p*theta_p + k*pi + r), which is what makes cos/sin/exp of it interpretable.

Values live in ordinary numpy object arrays, so the real PennyLane functions run unchanged.
"""
from __future__ import annotations

import math
import time
from fractions import Fraction as F

import numpy as np
import z3

from . import poly as P

PI = math.pi


class Unsupported(Exception):
    """operation outside the encodable fragment (arctan2, log, linalg, ...)"""


class Granularity(Exception):
    """a parameter enters a trig argument with a coefficient finer than 1/D: rerun with new D"""

    def __init__(self, param, need):
        super().__init__(f"{param} needs denominator {need}")
        self.param, self.need = param, need


class OutOfBound(Exception):
    """the current path leaves a stated bound of the encoding: explore() drops the path and records the bound as an assumption"""


class PathLimit(Exception):
    pass


# --------------------------------------------------------------------------------------------
# affine forms:  value = sum lin[p]*theta_p + pi*PI + rat       (all Fractions)
class Form:
    __slots__ = ("lin", "pi", "rat")

    def __init__(self, lin=None, pi=F(0), rat=F(0)):
        self.lin = dict(lin or {})
        self.pi = F(pi)
        self.rat = F(rat)

    def __add__(a, b):
        lin = dict(a.lin)
        for k, v in b.lin.items():
            nv = lin.get(k, 0) + v
            if nv:
                lin[k] = nv
            else:
                lin.pop(k, None)
        return Form(lin, a.pi + b.pi, a.rat + b.rat)

    def scale(a, k):
        k = F(k)
        if not k:
            return Form()
        return Form({p: v * k for p, v in a.lin.items()}, a.pi * k, a.rat * k)

    def is_zero(a):
        return not a.lin and not a.pi and not a.rat

    def is_const(a):
        return not a.lin

    def key(a):
        return (tuple(sorted(a.lin.items())), a.pi, a.rat)

    def __repr__(a):
        return f"Form({a.lin}, pi*{a.pi}, {a.rat})"


ZF = Form()


def _frac_close(x, maxden, tol=1e-12):
    f = F(x).limit_denominator(maxden)
    if abs(float(f) - x) <= tol * max(1.0, abs(x)):
        return f
    return None


# --------------------------------------------------------------------------------------------
class Session:
    def __init__(self, D=None, default_D=2, abstract=False, eq_tol_as_exact=True, max_paths=64):
        self.V = P.Vars()
        self.D = dict(D or {})
        self.default_D = default_D
        self.constraints = []  # (op, poly) with op in '==0','>=0','>0','!=0'
        self.assumed = []  # human-readable assumptions added by primitives
        self.params = {}  # name -> SymC
        self.atoms = {}  # name -> (c_idx, s_idx)
        self.inexact = []  # float literals read as exact binary rationals
        self.abstract = abstract
        # path exploration
        self.prefix = []
        self.trace = []
        self.pathcond = []  # z3 bools
        self.pending = []
        self.max_paths = max_paths
        self.decisions = 0
        # algebraic constants
        V = self.V
        self.r2 = V.const("r2", P.const(2))
        self.r3 = V.const("r3", P.const(3))
        self.r8 = V.const("r8", P.add(P.const(2), P.var(self.r2)))  # sqrt(2+sqrt2) = 2cos(pi/8)
        self.r16 = V.const("r16", P.add(P.const(2), P.var(self.r8)))  # 2cos(pi/16)
        self.PIv = V.get("PI", "pi")
        self._phase_cache = {}
        self._z3vars = {}
        self.fresh_memo = {}

    # ------------------------------------------------------------------ variables
    def param(self, name, D=None, wrap=True):
        """a real parameter theta usable inside trig/exp (angle) and as a plain real"""
        if D is not None:
            self.D.setdefault(name, D)
        if name not in self.params:
            idx = self.V.get(name, "param")
            self.params[name] = SymC(self, P.var(idx), (Form({name: F(1)}), ZF))
        s = self.params[name]
        return np.array(s, dtype=object) if wrap else s

    def real(self, name, wrap=False, nonneg=False, pos=False):
        idx = self.V.get(name, "free")
        s = SymC(self, P.var(idx))
        if pos:
            self.constrain(">0", s.p)
        elif nonneg:
            self.constrain(">=0", s.p)
        return np.array(s, dtype=object) if wrap else s

    def bit(self, name):
        """a 0/1-valued variable: m*m is rewritten to m by the polynomial arithmetic (multilinear normal form) and m*(m-1) == 0 is a
        solver constraint"""
        idx = self.V.get(name, "free")
        self.V.red[idx] = P.var(idx)
        s = SymC(self, P.var(idx))
        if not getattr(self, "_bits", None):
            self._bits = set()
        if idx not in self._bits:
            self._bits.add(idx)
            self.constrain("==0", P.sub(P.mul(s.p, s.p, self.V) if False else {((idx, 2),): F(1)}, s.p))
        return s

    def cplx(self, name, wrap=False):
        re, im = self.real(name + "_re"), self.real(name + "_im")
        s = re + im * self.I()
        return np.array(s, dtype=object) if wrap else s

    def I(self):
        return SymC(self, P.var(0))

    def constrain(self, op, p):
        self.constraints.append((op, p))

    def atom(self, name):
        a = self.atoms.get(name)
        if a is None:
            c = self.V.get("c_" + name, "cos", name)
            s = self.V.get("s_" + name, "sin", name)
            self.atoms[name] = a = (c, s)
            circ = P.sub(P.add(P.mul(P.var(c), P.var(c), self.V), P.mul(P.var(s), P.var(s), self.V)), P.ONE)
            self.constrain("==0", circ)
        return a

    def Dof(self, name):
        return self.D.get(name, self.default_D)

    # ------------------------------------------------------------------ constants
    def snap(self, x):
        """float -> exact polynomial constant (algebraic recognition, else exact binary rational)"""
        if isinstance(x, (int, np.integer)):
            return P.const(int(x))
        if isinstance(x, F):
            return P.const(x)
        x = float(x)
        if x == 0.0:
            return {}
        if not math.isfinite(x):
            raise Unsupported("non-finite constant")
        f = _frac_close(x, 4096)
        if f is not None:
            return P.const(f)
        for base, idx in ((math.sqrt(2), self.r2), (math.sqrt(3), self.r3), (math.pi, self.PIv),
                          (math.sqrt(2 + math.sqrt(2)), self.r8)):
            f = _frac_close(x / base, 1024)
            if f is not None:
                return P.scale(P.var(idx), f)
        # sqrt6 = r2*r3, sqrt(2-sqrt2) = r8*(r2-1)
        f = _frac_close(x / math.sqrt(6), 256)
        if f is not None:
            return P.scale(P.mul(P.var(self.r2), P.var(self.r3), self.V), f)
        f = _frac_close(x / math.sqrt(2 - math.sqrt(2)), 256)
        if f is not None:
            return P.scale(P.mul(P.var(self.r8), P.sub(P.var(self.r2), P.ONE), self.V), f)
        # a + b*sqrt2 with small denominators
        for den in (1, 2, 4, 8, 16):
            for a_num in range(-4 * den, 4 * den + 1):
                a = F(a_num, den)
                b = _frac_close((x - float(a)) / math.sqrt(2), 16, 1e-13)
                if b is not None and b != 0:
                    return P.add(P.const(a), P.scale(P.var(self.r2), b))
        # 1/pi multiples
        f = _frac_close(x * math.pi, 64)
        if f is not None:
            raise Unsupported(f"constant {x} is a multiple of 1/pi")
        self.inexact.append(x)
        return P.const(F(x))

    def form_of_float(self, x):
        x = float(x)
        if x == 0.0:
            return Form()
        f = _frac_close(x / math.pi, 96, tol=2e-10)  # the library rounds shifts to 10 decimals (3.1415926536): read as the pi-multiple it denotes
        if f is not None:
            return Form({}, f, 0)
        f = _frac_close(x, 1 << 20)
        if f is not None:
            return Form({}, 0, f)
        return Form({}, 0, F(x))

    def lift(self, x):
        if isinstance(x, SymC):
            return x
        if isinstance(x, SymB):
            return x.as_num()
        if isinstance(x, (bool, np.bool_)):
            x = int(x)
        if isinstance(x, (int, np.integer)):
            return SymC(self, P.const(int(x)), (Form({}, 0, int(x)), ZF))
        if isinstance(x, F):
            return SymC(self, P.const(x), (Form({}, 0, x), ZF))
        if isinstance(x, (float, np.floating)):
            return SymC(self, self.snap(x), (self.form_of_float(x), ZF))
        if isinstance(x, (complex, np.complexfloating)):
            re, im = float(x.real), float(x.imag)
            p = P.add(self.snap(re), P.mul(P.var(0), self.snap(im), self.V))
            return SymC(self, p, (self.form_of_float(re), self.form_of_float(im)))
        if isinstance(x, np.ndarray) and x.ndim == 0:
            return self.lift(x.item())
        return NotImplemented

    # ------------------------------------------------------------------ phases
    def const_phase(self, frac):
        """polynomial for exp(i*pi*frac), frac a Fraction"""
        frac = F(frac) % 2
        hit = self._phase_cache.get(frac)
        if hit is not None:
            return hit
        den = frac.denominator
        V = self.V
        I = P.var(0)
        half = F(1, 2)
        if 16 % den == 0:
            # zeta = exp(i pi/16) = cos(pi/16) + i sin(pi/16); cos(pi/16) = r16/2,
            # sin(pi/16) = sqrt(2 - r8)/2 = r16*(r8 - ... ) -> use sin(pi/16) = r16 * t with t = sqrt((2-r8)/(2+r8))
            # simpler: build from half-angle chain using known closed forms
            k = int(frac * 16)
            base = self._zeta16()
            out = P.power(base, k, V)
        elif 12 % den == 0:
            k = int(frac * 12)
            # exp(i pi/12) = exp(i pi/3) * exp(-i pi/4)
            e3 = P.add(P.const(half), P.scale(P.mul(I, P.var(self.r3), V), half))
            e4c = P.scale(P.mul(P.var(self.r2), P.sub(P.ONE, I), V), half)
            out = P.power(P.mul(e3, e4c, V), k, V)
        else:
            raise Unsupported(f"phase pi*{frac}")
        self._phase_cache[frac] = out
        return out

    def _zeta16(self):
        # exp(i pi/16).  With a = 2cos(pi/8) = r8, 2cos(pi/16) = r16 = sqrt(2 + r8),
        # 2 sin(pi/16) = sqrt(2 - r8) = r16 * (2 - r8) / sqrt(4 - r8^2) = r16*(2 - r8)/sqrt(2 - r2)
        # and sqrt(2 - r2) = r8*(r2 - 1).  To stay polynomial we use 1/(r8*(r2-1)) = r8*(r2+1)/(r8^2) ...
        # r8^2 = 2 + r2 ; (r2-1)(r2+1) = 1  =>  1/(r8 (r2-1)) = (r2+1) * r8 / (2 + r2) ; 1/(2+r2) = (2 - r2)/2
        V = self.V
        r2, r8, r16 = P.var(self.r2), P.var(self.r8), P.var(self.r16)
        inv = P.scale(P.mul(P.mul(P.add(r2, P.ONE), r8, V), P.sub(P.const(2), r2), V), F(1, 2))
        two_sin = P.mul(P.mul(r16, P.sub(P.const(2), r8), V), inv, V)
        return P.add(P.scale(r16, F(1, 2)), P.scale(P.mul(P.var(0), two_sin, V), F(1, 2)))

    def phasor(self, form: Form):
        """polynomial for exp(i*form)"""
        V = self.V
        out = P.ONE
        lin = dict(form.lin)
        if form.rat:
            lin["_rad"] = lin.get("_rad", 0) + form.rat
        for name, q in sorted(lin.items()):
            D = self.Dof(name)
            n = q * D
            if n.denominator != 1:
                raise Granularity(name, _lcm(D, F(q).denominator))
            n = int(n)
            c, s = self.atom(name)
            base = P.add(P.var(c), P.scale(P.mul(P.var(0), P.var(s), V), 1 if n >= 0 else -1))
            out = P.mul(out, P.power(base, abs(n), V), V)
        if form.pi:
            out = P.mul(out, self.const_phase(form.pi), V)
        return out

    # ------------------------------------------------------------------ fresh symbols
    def fresh(self, kind, keyp, make):
        k = (kind, P.key(keyp))
        hit = self.fresh_memo.get(k)
        if hit is None:
            name = f"{kind}{len(self.fresh_memo)}"
            idx = self.V.get(name, kind)
            hit = SymC(self, P.var(idx))
            self.fresh_memo[k] = hit
            make(hit)
        return hit

    # ------------------------------------------------------------------ z3
    def zvar(self, idx):
        v = self._z3vars.get(idx)
        if v is None:
            v = self._z3vars[idx] = z3.Real(self.V.names[idx])
        return v

    def z3poly(self, p):
        """real polynomial (no I) -> z3 term"""
        if not p:
            return z3.RealVal(0)
        terms = []
        for m, c in p.items():
            t = None
            for v, e in m:
                if v == 0:
                    raise AssertionError("imaginary unit in real polynomial")
                zv = self.zvar(v)
                for _ in range(e):
                    t = zv if t is None else t * zv
            cv = z3.RealVal(str(c))
            terms.append(cv if t is None else (t if c == 1 else cv * t))
        return terms[0] if len(terms) == 1 else z3.Sum(terms)

    def z3constraints(self, used=None):
        """all constraints (optionally only those whose variables are connected to `used`)"""
        out = []
        V = self.V
        names = set()
        cons = list(self.constraints)
        if used is not None:
            # closure: a constraint is relevant if it shares a variable with the used set
            used = set(used)
            changed = True
            rel = [False] * len(cons)
            cvars = [P.variables(p) for _, p in cons]
            while changed:
                changed = False
                for i, cv in enumerate(cvars):
                    if not rel[i] and (cv & used):
                        rel[i] = True
                        if not cv <= used:
                            used |= cv
                            changed = True
            cons = [c for c, r in zip(cons, rel) if r]
            allv = used
        else:
            allv = set()
            for _, p in cons:
                allv |= P.variables(p)
        for op, p in cons:
            re, im = P.split_complex(p)
            assert not im, "complex constraint"
            t = self.z3poly(re)
            out.append({"==0": t == 0, ">=0": t >= 0, ">0": t > 0, "!=0": t != 0}[op])
        # algebraic constants
        def need(i):
            return used is None or i in allv
        cdeps = {self.r16: [self.r8, self.r2], self.r8: [self.r2]}
        want = set()
        for i in (self.r2, self.r3, self.r8, self.r16, self.PIv):
            if used is None or i in allv:
                want.add(i)
                for d in cdeps.get(i, []):
                    want.add(d)
        for i in sorted(want):
            zv = self.zvar(i)
            if i == self.PIv:
                out += [zv > z3.RealVal("3.14159265358979"), zv < z3.RealVal("3.14159265358980")]
            else:
                out += [zv * zv == self.z3poly(V.red[i]), zv > 0]
        return out

    # ------------------------------------------------------------------ decisions (path forking)
    def decide(self, zexpr_fn, hint=None):
        """zexpr_fn() -> z3 Bool for the condition.  Returns the branch taken on this run."""
        i = len(self.trace)
        self.decisions += 1
        cond = zexpr_fn()
        if i < len(self.prefix):
            val = self.prefix[i]
        else:
            can_t = self._feasible(cond)
            can_f = self._feasible(z3.Not(cond))
            if can_t and can_f:
                val = True if hint is None else hint
                self.pending.append(self.trace + [not val])
            elif can_t:
                val = True
            elif can_f:
                val = False
            else:
                val = True  # infeasible path: keep going, obligations will be vacuous (twin catches it)
        self.trace.append(val)
        self.pathcond.append(cond if val else z3.Not(cond))
        return val

    def _feasible(self, cond):
        s = z3.Solver()
        s.set("timeout", 5000)
        s.add(*self.z3constraints())
        s.add(*self.pathcond)
        s.add(cond)
        r = str(s.check())
        return r != "unsat"


def _lcm(a, b):
    return a * b // math.gcd(a, b)


CUR: Session | None = None


def session(**kw) -> Session:
    global CUR
    install_shims()
    CUR = Session(**kw)
    return CUR


# --------------------------------------------------------------------------------------------
class SymB:
    """symbolic boolean; bool() forks the path"""

    __slots__ = ("S", "mk", "const")

    def __init__(self, S, mk=None, const=None):
        self.S, self.mk, self.const = S, mk, const

    def z(self):
        if self.const is not None:
            return z3.BoolVal(bool(self.const))
        return self.mk()

    def __bool__(self):
        if self.const is not None:
            return bool(self.const)
        return self.S.decide(self.mk)

    def __invert__(self):
        if self.const is not None:
            return SymB(self.S, const=not self.const)
        return SymB(self.S, lambda: z3.Not(self.mk()))

    def __and__(self, o):
        o = _symb(self.S, o)
        if self.const is not None:
            return o if self.const else self
        if o.const is not None:
            return self if o.const else o
        return SymB(self.S, lambda: z3.And(self.mk(), o.mk()))

    __rand__ = __and__

    def __or__(self, o):
        o = _symb(self.S, o)
        if self.const is not None:
            return self if self.const else o
        if o.const is not None:
            return o if o.const else self
        return SymB(self.S, lambda: z3.Or(self.mk(), o.mk()))

    __ror__ = __or__

    # ordering of truth values (False < True): numpy's argmax / max / sort on arrays of comparison results; decided by forking
    def __gt__(self, o):
        return bool(self) > bool(o)

    def __lt__(self, o):
        return bool(self) < bool(o)

    def __ge__(self, o):
        return bool(self) >= bool(o)

    def __le__(self, o):
        return bool(self) <= bool(o)

    def all(self, *a, **k):
        return self

    def any(self, *a, **k):
        return self

    def as_num(self):
        return SymC(self.S, P.const(1 if bool(self) else 0))

    def __repr__(self):
        return f"SymB({self.const if self.const is not None else self.mk()})"


def _symb(S, o):
    if isinstance(o, SymB):
        return o
    return SymB(S, const=bool(o))


# --------------------------------------------------------------------------------------------
class SymC:
    # no __array_priority__: numpy treats SymC as an object scalar and applies ops elementwise
    __slots__ = ("S", "p", "aff", "modp")

    def __init__(self, S, p, aff=None, modp=None):
        self.S = S
        self.p = p
        self.aff = aff  # (Form re, Form im) or None
        self.modp = modp

    # -- helpers
    def _l(self, o):
        if isinstance(o, SymC):
            return o
        if isinstance(o, np.ndarray) and o.ndim > 0:
            return NotImplemented
        return self.S.lift(o)

    def is_const(self):
        return all(all(self.S.V.kind[v] in ("unit", "const", "pi") for v, _ in m) for m in self.p)

    def const_complex(self):
        """numeric value if the polynomial contains only constants"""
        if not self.is_const():
            return None
        vals = _const_values(self.S)
        return complex(P.evalf(self.p, vals))

    def is_real_syntactic(self):
        return not P.split_complex(self.p)[1]

    # -- arithmetic
    def __add__(a, b):
        b = a._l(b)
        if b is NotImplemented:
            return b
        aff = None
        if a.aff is not None and b.aff is not None:
            aff = (a.aff[0] + b.aff[0], a.aff[1] + b.aff[1])
        return SymC(a.S, P.add(a.p, b.p), aff)

    __radd__ = __add__

    def __neg__(a):
        aff = None if a.aff is None else (a.aff[0].scale(-1), a.aff[1].scale(-1))
        return SymC(a.S, P.neg(a.p), aff)

    def __pos__(a):
        return a

    def __sub__(a, b):
        b = a._l(b)
        if b is NotImplemented:
            return b
        return a + (-b)

    def __rsub__(a, b):
        b = a._l(b)
        if b is NotImplemented:
            return b
        return b + (-a)

    def __mul__(a, b):
        if hasattr(b, "wires") and hasattr(b, "queue") and hasattr(b, "name"):  # scalar * Operator: PennyLane's TensorLike test does not know SymC
            import pennylane as qp

            return qp.s_prod(np.array(a, dtype=object), b)
        b = a._l(b)
        if b is NotImplemented:
            return b
        aff = None
        ca, cb = a._aff_const(), b._aff_const()
        if cb is not None and a.aff is not None:
            aff = _aff_scale(a.aff, cb)
        elif ca is not None and b.aff is not None:
            aff = _aff_scale(b.aff, ca)
        return SymC(a.S, P.mul(a.p, b.p, a.S.V), aff)

    __rmul__ = __mul__

    def _aff_const(a):
        """(re, im) Fractions if this value is a plain rational complex constant"""
        if P.is_const(a.p) or all(m == () or m == ((0, 1),) for m in a.p):
            return (a.p.get((), F(0)), a.p.get(((0, 1),), F(0)))
        # multiples of pi (affine bookkeeping of k*pi*theta is not supported)
        return None

    def __truediv__(a, b):
        b = a._l(b)
        if b is NotImplemented:
            return b
        return a * b.inv()

    def __rtruediv__(a, b):
        b = a._l(b)
        if b is NotImplemented:
            return b
        return b * a.inv()

    def inv(a):
        S = a.S
        if not a.p:
            raise ZeroDivisionError("symbolic division by exact zero")
        if P.is_const(a.p):
            c = F(1) / P.const_value(a.p)
            return SymC(S, P.const(c), (Form({}, 0, c), ZF))
        # pure constants in Q(i, sqrt2, ...): invert via conjugates when simple
        cc = a.const_complex()
        if cc is not None:
            # 1/z = conj-trick for monomial c*v (v^2 rational)
            if len(a.p) == 1:
                (m, c), = a.p.items()
                sq = P.mul({m: F(1)}, {m: F(1)}, S.V)
                if P.is_const(sq) and sq:
                    return SymC(S, P.scale({m: F(1)}, F(1) / (c * P.const_value(sq))))
            v = 1.0 / cc
            return S.lift(complex(v) if abs(v.imag) > 1e-15 else v.real)
        re, im = P.split_complex(a.p)
        if im:
            # 1/(x+iy) = (x-iy)/(x^2+y^2)
            n2 = P.add(P.mul(re, re, S.V), P.mul(im, im, S.V))
            return SymC(S, P.conj(a.p)) * SymC(S, n2).inv()

        def make(d):
            S.constrain("==0", P.sub(P.mul(d.p, a.p, S.V), P.ONE))
            S.assumed.append("division: denominator assumed non-zero")

        return S.fresh("inv", a.p, make)

    def __pow__(a, n):
        if isinstance(n, SymC):
            c = n.const_complex()
            if c is None or abs(c.imag) > 0:
                raise Unsupported("symbolic exponent")
            n = c.real
        if isinstance(n, np.ndarray) and n.ndim == 0:
            n = n.item()
        if isinstance(n, (float, np.floating)):
            if float(n).is_integer():
                n = int(n)
            elif float(n) == 0.5:
                return a.sqrt()
            elif float(n) == -0.5:
                return a.sqrt().inv()
            else:
                raise Unsupported(f"fractional power {n}")
        n = int(n)
        if n < 0:
            return a.inv() ** (-n)
        return SymC(a.S, P.power(a.p, n, a.S.V), a.aff if n == 1 else None)

    def __rpow__(a, b):
        raise Unsupported("symbolic exponent")

    def __mod__(a, m):
        c = a.const_complex()
        if isinstance(m, SymC):
            m = m.const_complex()
            m = None if m is None else m.real
        if c is not None and m is not None:
            return a.S.lift(c.real % float(m))
        if m is None or a.aff is None or not a.aff[1].is_zero():
            raise Unsupported("% on symbolic value")
        # periodic-% rule: m must be a common period of every atom the value can reach
        m = float(m)
        fr = a.aff[0]
        periodic = m > 0
        for name, q in fr.lin.items():
            period_atoms = 2 * PI * a.S.Dof(name) / abs(float(q))
            k = m / period_atoms
            if abs(k - round(k)) > 1e-9 or round(k) < 1:
                periodic = False
        if periodic:
            return SymC(a.S, a.p, a.aff, modp=m)
        if not m > 0:
            raise Unsupported("% with non-positive modulus on a symbolic value")
        # generic case: x % m == x - k*m on the branch k*m <= x < (k+1)*m.  The path forks over k in -2..2 (solver-decided); the last
        # candidate is assumed, which restricts the claim on such paths to -2m <= x < 3m (recorded in S.assumed).
        S = a.S
        for k in (0, -1, 1, -2, 2):
            lo = a - k * m
            if bool(lo >= 0) and bool(lo < m):
                return lo
        raise OutOfBound("argument x of a symbolic `x % m` assumed within [-2m, 3m)")

    def __rmod__(a, b):
        raise Unsupported("% with symbolic modulus")

    def __floordiv__(a, b):
        raise Unsupported("// on symbolic value")

    __rfloordiv__ = __floordiv__

    # bit-valued terms (measurement outcomes): logical operators as polynomials
    def __xor__(a, b):
        b = a._l(b)
        return a + b - a * b * 2

    __rxor__ = __xor__

    def __and__(a, b):
        b = a._l(b)
        return a * b

    __rand__ = __and__

    def __or__(a, b):
        b = a._l(b)
        return a + b - a * b

    __ror__ = __or__

    def __invert__(a):
        return a.S.lift(1) - a

    # numpy's object-dtype ufuncs call methods of these names on the elements
    logical_xor = bitwise_xor = __xor__
    logical_and = bitwise_and = __and__
    logical_or = bitwise_or = __or__

    def logical_not(a):
        return a.S.lift(1) - a

    invert = bitwise_not = logical_not

    def __abs__(a):
        S = a.S
        c = a.const_complex()
        if c is not None:
            return S.lift(abs(c))
        re, im = P.split_complex(a.p)
        n2 = P.add(P.mul(re, re, S.V), P.mul(im, im, S.V))

        def make(r):
            S.constrain(">=0", r.p)
            S.constrain("==0", P.sub(P.mul(r.p, r.p, S.V), n2))

        return S.fresh("abs", n2, make)

    absolute = __abs__

    def sqrt(a):
        S = a.S
        c = a.const_complex()
        if c is not None:
            if abs(c.imag) > 0 or c.real < 0:
                import cmath

                return S.lift(cmath.sqrt(c))
            return S.lift(math.sqrt(c.real))
        if not a.is_real_syntactic():
            raise Unsupported("sqrt of complex symbolic value")

        def make(r):
            S.constrain(">=0", r.p)
            S.constrain("==0", P.sub(P.mul(r.p, r.p, S.V), a.p))
            S.assumed.append("sqrt: radicand assumed >= 0")

        return S.fresh("sqrt", a.p, make)

    # -- complex structure
    @property
    def real(a):
        re, _ = P.split_complex(a.p)
        aff = None if a.aff is None else (a.aff[0], ZF)
        return SymC(a.S, re, aff)

    @property
    def imag(a):
        _, im = P.split_complex(a.p)
        aff = None if a.aff is None else (a.aff[1], ZF)
        return SymC(a.S, im, aff)

    def conjugate(a):
        aff = None if a.aff is None else (a.aff[0], a.aff[1].scale(-1))
        return SymC(a.S, P.conj(a.p), aff)

    conj = conjugate

    # -- transcendental on affine forms
    def _need_aff(a, what):
        if a.aff is None:
            c = a.const_complex()
            if c is not None:
                return (a.S.form_of_float(c.real), a.S.form_of_float(c.imag))
            raise Unsupported(f"{what} of a non-affine symbolic value")
        return a.aff

    def cos(a):
        fr, fi = a._need_aff("cos")
        if not fi.is_zero():
            raise Unsupported("cos of complex argument")
        ph = a.S.phasor(fr)
        return SymC(a.S, P.split_complex(ph)[0])

    def sin(a):
        fr, fi = a._need_aff("sin")
        if not fi.is_zero():
            raise Unsupported("sin of complex argument")
        ph = a.S.phasor(fr)
        return SymC(a.S, P.split_complex(ph)[1])

    def tan(a):
        return a.sin() / a.cos()

    def arctan2(y, x):
        """numpy.arctan2(y, x): a fresh angle beta in (-pi, pi] with r*cos(beta) == x, r*sin(beta) == y, r >= 0 (beta == 0 when r == 0).
        The raw value of beta is linked to the signs of its circle atoms quadrant by quadrant, so that comparisons of beta with
        multiples of pi/2 are decided exactly."""
        S = y.S
        x = y._l(x)
        if x is NotImplemented:
            return x
        cy, cx = y.const_complex(), x.const_complex()
        if cy is not None and cx is not None:
            return S.lift(math.atan2(cy.real, cx.real))
        if not (y.is_real_syntactic() and x.is_real_syntactic()):
            raise Unsupported("arctan2 of complex symbolic values")
        keyp = P.add(y.p, P.mul(P.var(0), x.p, S.V))
        k = ("atan2", P.key(keyp))
        hit = S.fresh_memo.get(k)
        if hit is not None:
            return hit
        name = f"atan{len(S.fresh_memo)}"
        beta = S.param(name, D=1, wrap=False)
        S.fresh_memo[k] = beta
        ph = S.phasor(Form({name: F(1)}))
        cp, sp = P.split_complex(ph)
        r = S.real(name + "_r")
        S.constrain(">=0", r.p)
        S.constrain("==0", P.sub(P.mul(r.p, cp, S.V), x.p))
        S.constrain("==0", P.sub(P.mul(r.p, sp, S.V), y.p))
        b, c, sn, rz, PI = S.z3poly(beta.p), S.z3poly(cp), S.z3poly(sp), S.z3poly(r.p), S.zvar(S.PIv)
        S.pathcond.append(z3.And(
            b > -PI, b <= PI,
            (sn > 0) == z3.And(b > 0, b < PI), (sn < 0) == z3.And(b < 0, b > -PI),
            z3.And(sn == 0, c > 0) == (b == 0), z3.And(sn == 0, c < 0) == (b == PI),
            (c > 0) == z3.And(b > -PI / 2, b < PI / 2), z3.And(c == 0, sn > 0) == (b == PI / 2), z3.And(c == 0, sn < 0) == (b == -PI / 2),
            z3.Implies(rz == 0, b == 0)))
        note = "arctan2(y, x): fresh angle beta in (-pi, pi] with r*cos(beta) == x, r*sin(beta) == y, r >= 0; beta == 0 when x == y == 0"
        if note not in S.assumed:
            S.assumed.append(note)
        return beta

    def exp(a):
        fr, fi = a._need_aff("exp")
        S = a.S
        out = SymC(S, S.phasor(fi)) if not fi.is_zero() else SymC(S, P.ONE)
        if not fr.is_zero():
            if fr.is_const() and not fr.pi:
                # exp of a rational constant
                out = out * S.lift(math.exp(float(fr.rat)))
            else:
                out = out * S._real_exp(fr)
        return out

    def cosh(a):
        e = a.exp()
        return (e + e.inv()) * F(1, 2)

    def sinh(a):
        e = a.exp()
        return (e - e.inv()) * F(1, 2)

    def _unsup(name):
        def f(a, *x, **k):
            raise Unsupported(name)

        return f

    arctan = _unsup("arctan")
    arccos = _unsup("arccos")
    arcsin = _unsup("arcsin")
    log = _unsup("log")
    log2 = _unsup("log2")
    floor = _unsup("floor")
    ceil = _unsup("ceil")
    rint = _unsup("rint")
    __round__ = _unsup("round")

    def angle(a):
        raise Unsupported("angle")

    # -- comparisons
    def _cmp(a, b, op):
        b = a._l(b)
        if b is NotImplemented:
            return b
        S = a.S
        d = P.sub(a.p, b.p)
        re, im = P.split_complex(d)
        if op in ("==", "!="):
            if a.modp is not None or b.modp is not None:
                return _mod_eq(a, b, op)
            if not d:
                return SymB(S, const=(op == "=="))
            cc = SymC(S, d).const_complex()
            if cc is not None:
                return SymB(S, const=((abs(cc) < 1e-12) == (op == "==")))
            # equality of two angle-valued affine forms f == 0 implies exp(i*f*s) == 1 for every scale s: link the (otherwise
            # independent) circle atoms of the parameters to the linear relation on the true branch.  The false branch becomes
            # Not(linear /\ phasor), an over-approximation of f != 0 -- sound for proving.
            ph = None
            if a.aff is not None and b.aff is not None and a.aff[1].is_zero() and b.aff[1].is_zero():
                f = a.aff[0] + b.aff[0].scale(-1)
                if f.lin and any(nm in S.atoms for nm in f.lin):
                    dens = [S.Dof(nm) for nm in f.lin]
                    L = 1
                    for d_ in dens:
                        L = _lcm(L, d_)
                    for sc in (F(1, L), F(2, L), F(4, L), F(1)):
                        try:
                            ph = S.phasor(f.scale(sc))
                            break
                        except Granularity:
                            ph = None
            def mk():
                e = z3.And(S.z3poly(re) == 0, S.z3poly(im) == 0) if im else (S.z3poly(re) == 0)
                if ph is not None:
                    pr, pi_ = P.split_complex(ph)
                    e = z3.And(e, S.z3poly(P.sub(pr, P.ONE)) == 0, S.z3poly(pi_) == 0 if pi_ else z3.BoolVal(True))
                return e if op == "==" else z3.Not(e)
            return SymB(S, mk)
        if im:
            raise Unsupported("order comparison of complex symbolic values")
        cc = SymC(S, d).const_complex()
        if cc is not None:
            v = cc.real
            return SymB(S, const={"<": v < 0, "<=": v <= 0, ">": v > 0, ">=": v >= 0}[op])
        if a.modp is not None or b.modp is not None:
            return _mod_cmp(a, b, op)
        def mk():
            t = S.z3poly(re)
            return {"<": t < 0, "<=": t <= 0, ">": t > 0, ">=": t >= 0}[op]
        return SymB(S, mk)

    def __eq__(a, b):
        return a._cmp(b, "==")

    def __ne__(a, b):
        return a._cmp(b, "!=")

    def __lt__(a, b):
        return a._cmp(b, "<")

    def __le__(a, b):
        return a._cmp(b, "<=")

    def __gt__(a, b):
        return a._cmp(b, ">")

    def __ge__(a, b):
        return a._cmp(b, ">=")

    def __hash__(a):
        return hash((id(a.S), P.key(a.p)))

    # -- concretisation
    def __float__(a):
        c = a.const_complex()
        if c is None:
            raise Unsupported("float() of a symbolic value")
        if abs(c.imag) > 1e-14:
            raise TypeError("complex to float")
        return c.real

    def __complex__(a):
        c = a.const_complex()
        if c is None:
            raise Unsupported("complex() of a symbolic value")
        return c

    def __int__(a):
        return int(float(a))

    def __bool__(a):
        return bool(a != 0)

    def __repr__(a):
        return "Sym(" + P.to_str(a.p, a.S.V) + ")"

    # numpy protocol bits
    @property
    def dtype(a):
        return np.dtype(object)

    @property
    def shape(a):
        return ()

    @property
    def ndim(a):
        return 0

    @property
    def T(a):
        return a

    def item(a):
        return a


def _aff_scale(aff, c):
    re, im = c
    fr, fi = aff
    # (fr + i fi) * (re + i im)
    return (fr.scale(re) + fi.scale(-im), fr.scale(im) + fi.scale(re))


def _mod_eq(a, b, op):
    """(x % m) == const  ->  constraint on the circle atoms of x (single parameter, coefficient q)."""
    S = a.S
    if b.modp is not None and a.modp is None:
        a, b = b, a
    cb = b.const_complex()
    if cb is None or a.aff is None:
        raise Unsupported("comparison of periodic remainder with a symbolic value")
    fr = a.aff[0]
    target = cb.real
    if not (0 <= target < a.modp + 1e-12):
        return SymB(S, const=(op != "=="))
    # x == target (mod m)  <=>  exp(i*(x - target)/Dmax-granularity) atoms fixed: we state it as
    # cos((x-target)*g) == 1 and sin((x-target)*g) == 0 with g = 2*pi/m
    g = F(2 * PI / a.modp).limit_denominator(64)
    shifted = (fr + S.form_of_float(-target)).scale(g)
    ph = S.phasor(shifted)
    re, im = P.split_complex(ph)

    def mk():
        e = z3.And(S.z3poly(P.sub(re, P.ONE)) == 0, S.z3poly(im) == 0)
        return e if op == "==" else z3.Not(e)

    return SymB(S, mk)


def _mod_cmp(a, b, op):
    raise Unsupported("order comparison of periodic remainder")


def _const_values(S):
    vals = {0: 1j, S.r2: math.sqrt(2), S.r3: math.sqrt(3), S.r8: math.sqrt(2 + math.sqrt(2)),
            S.r16: math.sqrt(2 + math.sqrt(2 + math.sqrt(2))), S.PIv: math.pi}
    return vals


def _real_exp(S, form):
    """exp of a real affine form with symbolic part: fresh positive symbol per base form,
    integer multiples share the symbol (e^{n x} = (e^x)^n)."""
    key = form.key()
    memo = S.__dict__.setdefault("_exp_memo", {})
    # normalise sign/scale: find a base form f0 with form = n*f0 for integer n among known bases
    for k0, (f0, sym) in memo.items():
        ratio = _form_ratio(form, f0)
        if ratio is not None and ratio.denominator == 1:
            n = int(ratio)
            return sym ** n if n >= 0 else (sym ** (-n)).inv()
    idx = S.V.get(f"exp{len(memo)}", "exp")
    sym = SymC(S, P.var(idx))
    S.constrain(">0", sym.p)
    S.assumed.append("exp(real symbolic) modelled as an arbitrary positive real (over-approximation)")
    memo[key] = (form, sym)
    return sym


def _form_ratio(f, g):
    r = None
    keys = set(f.lin) | set(g.lin)
    pairs = [(f.lin.get(k, F(0)), g.lin.get(k, F(0))) for k in keys] + [(f.pi, g.pi), (f.rat, g.rat)]
    for x, y in pairs:
        if y == 0:
            if x != 0:
                return None
            continue
        q = x / y
        if r is None:
            r = q
        elif r != q:
            return None
    return r


Session._real_exp = _real_exp


# --------------------------------------------------------------------------------------------
# arrays
def arr(x, S=None):
    """object ndarray of SymC from anything numeric (lifting constants)"""
    S = S or CUR
    a = np.asarray(x, dtype=object) if not (isinstance(x, np.ndarray) and x.dtype == object) else x
    if S is None:
        # no current session (plain-float replay): take the session of a symbolic element if there is one, else leave numbers alone
        for v in a.ravel():
            if isinstance(v, SymC):
                S = v.S
                break
        if S is None:
            return a
    out = np.empty(a.shape, dtype=object)
    flat_in = a.ravel()
    flat = out.ravel()
    for i in range(flat_in.size):
        v = S.lift(flat_in[i])
        if v is NotImplemented:
            raise Unsupported(f"cannot lift {type(flat_in[i])}")
        flat[i] = v
    return out.reshape(a.shape)


def poly_ratio(p, q):
    """complex constant k with p == k*q (polynomials proportional over Q(i)), else None"""
    if not q:
        return None
    if not p:
        return (F(0), F(0))
    # pick the leading monomial of q (ignoring I) and solve
    S = CUR
    qr, qi = P.split_complex(q)
    pr, pi_ = P.split_complex(p)
    base = qr if qr else qi
    m0 = next(iter(sorted(base)))
    # q = (qa + i qb)*m0 + ..., p = (pa + i pb)*m0 + ...  => k = (pa+i pb)/(qa+i qb)
    qa, qb = qr.get(m0, F(0)), qi.get(m0, F(0))
    pa, pb = pr.get(m0, F(0)), pi_.get(m0, F(0))
    den = qa * qa + qb * qb
    if not den:
        return None
    kr = (pa * qa + pb * qb) / den
    ki = (pb * qa - pa * qb) / den
    kq = P.mul(P.add(P.const(kr), P.scale(P.var(0), ki)), q, S.V)
    if P.sub(kq, p):
        return None
    return (kr, ki)


def sym_expm(A):
    S = CUR
    A = arr(A, S)
    if A.ndim == 3:
        return np.stack([sym_expm(a) for a in A])
    n = A.shape[0]
    offdiag = [A[r, c] for r in range(n) for c in range(n) if r != c]
    if all(not x.p for x in offdiag):
        out = np.zeros((n, n), dtype=object)
        for k in range(n):
            out[k, k] = A[k, k].exp()
        return arr(out, S)
    # A = a * Pm with Pm concrete and Pm @ Pm == I
    a = next((x for x in A.ravel() if x.p and not x.is_const()), None)
    if a is None:
        import scipy.linalg
        return arr(scipy.linalg.expm(evalf(S, A, _const_values(S))), S)
    Pm = np.zeros((n, n), dtype=complex)
    for r in range(n):
        for c in range(n):
            k = poly_ratio(A[r, c].p, a.p)
            if k is None:
                raise Unsupported("expm of a symbolic matrix that is not scalar*constant")
            Pm[r, c] = complex(float(k[0]), float(k[1]))
    if not np.allclose(Pm @ Pm, np.eye(n), atol=1e-12):
        raise Unsupported("expm: constant factor is not an involution")
    ea, eam = a.exp(), (-a).exp()
    ch, sh = (ea + eam) * F(1, 2), (ea - eam) * F(1, 2)
    return arr(np.eye(n), S) * ch + arr(Pm, S) * sh


def matmul(A, B):
    return np.dot(A, B)


def dagger(A):
    return np.conj(A).T


def is_symbolic(x):
    if isinstance(x, (SymC, SymB)):
        return True
    if isinstance(x, np.ndarray) and x.dtype == object:
        return True
    if isinstance(x, (list, tuple)):
        return any(is_symbolic(v) for v in x)
    return False


# --------------------------------------------------------------------------------------------
# shims (monkeypatches inside the check process; no change to /repo)
_SHIMS = False
SHIM_NOTES = [
    "pennylane.math.cast/cast_like/convert_like/astype are the identity on object arrays",
    "Operator2 argument dtype validation (_init_arg_types) is skipped for symbolic arguments",
    "autoray backend alias: SymC scalars dispatch to numpy",
    "default.qubit create_initial_state result viewed as dtype=object",
    "qp.math.norm of an object array: sqrt(sum x*conj(x)) with sqrt introduced by its defining equation",
    "qp.math.allclose/isclose on symbolic data are exact equalities (the |x|<=atol slab is outside the claim)",
    "float angle constants within 2e-10 (relative to pi) of a multiple of pi/96 are read as that exact multiple (the library rounds shifts to 10 decimals)",
    "PauliSentence.dot keeps an object buffer for object-dtype vectors (np.zeros_like in pennylane.pauli.pauli_arithmetic)",
]


def install_shims():
    global _SHIMS
    if _SHIMS:
        return
    _SHIMS = True
    import autoray
    import pennylane as qp
    import pennylane.math as pm
    import pennylane.math.utils as pmu
    import importlib

    autoray.autoray._BACKEND_ALIASES["vf"] = "numpy"

    def symbolic(x):
        return isinstance(x, (SymC, SymB)) or (isinstance(x, np.ndarray) and x.dtype == object)

    # --- casts
    for modname, names in (("pennylane.math.utils", ("cast", "cast_like", "convert_like")),):
        mod = importlib.import_module(modname)
        for nm in names:
            orig = getattr(mod, nm)

            def mk(orig, nm):
                def f(x, *a, **k):
                    if symbolic(x):
                        return x
                    if nm in ("cast_like", "convert_like") and a and symbolic(a[0]):
                        # converting a concrete tensor "like" a symbolic one: make it an object array
                        if isinstance(x, (list, tuple)) and any(symbolic(v) for v in x):
                            return x
                        return x
                    return orig(x, *a, **k)

                f.__name__ = nm
                f.__wrapped__ = orig
                return f

            new = mk(orig, nm)
            setattr(mod, nm, new)
            if getattr(pm, nm, None) is orig:
                setattr(pm, nm, new)
            # rebind in every already-imported pennylane module that imported the name directly
            import sys

            for m in list(sys.modules.values()):
                if m is None or not getattr(m, "__name__", "").startswith("pennylane"):
                    continue
                try:
                    if m.__dict__.get(nm) is orig:
                        m.__dict__[nm] = new
                except Exception:
                    pass

    # --- real/imag: numpy's .real on an object array silently returns the array itself
    def _part(which, orig):
        def f(x, *a, **k):
            if isinstance(x, SymC):
                return getattr(x, which)
            if isinstance(x, np.ndarray) and x.dtype == object:
                out = np.empty(x.shape, dtype=object)
                flat = out.ravel() if out.ndim else None
                if x.ndim == 0:
                    v = x.item()
                    out[()] = getattr(v, which) if isinstance(v, SymC) else getattr(np, "_verif_orig_" + which)(v)
                    return out
                xi = x.ravel()
                for i in range(xi.size):
                    v = xi[i]
                    flat[i] = getattr(v, which) if isinstance(v, SymC) else getattr(np.asarray(v), which).item()
                return out
            if isinstance(x, (list, tuple)) and any(symbolic(v) for v in x):
                return f(np.asarray(x, dtype=object))
            return orig(x, *a, **k)
        return f

    for which in ("real", "imag"):
        orig = getattr(np, which)
        setattr(np, "_verif_orig_" + which, orig)
        new = _part(which, orig)
        setattr(np, which, new)
        autoray.register_function("numpy", which, new)

    # --- elementwise functions on object arrays that mix symbolic terms with plain Python numbers (int has no .sqrt())
    def _elementwise(fname, orig):
        import cmath

        plain = {"sqrt": lambda v: cmath.sqrt(v) if (isinstance(v, complex) or v < 0) else math.sqrt(v), "cos": lambda v: cmath.cos(v) if isinstance(v, complex) else math.cos(v),
                 "sin": lambda v: cmath.sin(v) if isinstance(v, complex) else math.sin(v), "exp": lambda v: cmath.exp(v) if isinstance(v, complex) else math.exp(v)}[fname]

        def f(x, *a, **k):
            if isinstance(x, np.ndarray) and x.dtype == object:
                out = np.empty(x.shape, dtype=object)
                xi, oi = x.ravel(), out.reshape(-1)
                for i in range(xi.size):
                    v = xi[i]
                    oi[i] = getattr(v, fname)() if isinstance(v, SymC) else plain(v.item() if hasattr(v, "item") else v)
                return out if x.ndim else out.reshape(())
            return orig(x, *a, **k)

        return f

    for fname in ("sqrt", "cos", "sin", "exp"):
        autoray.register_function("numpy", fname, _elementwise(fname, getattr(np, fname)))

    # --- vector / Frobenius norm of object arrays: sqrt(sum |x|^2)  (scipy's norm squares complex entries without conjugation)
    import sys as _sys

    importlib.import_module("pennylane.math.multi_dispatch")
    pmd = _sys.modules["pennylane.math.multi_dispatch"]

    orig_norm = pmd.norm

    def norm(tensor, like=None, **kwargs):
        if symbolic(tensor) and kwargs.get("ord") is None and kwargs.get("axis") is None:
            flat = np.asarray(tensor, dtype=object).ravel()
            tot = 0
            for v in flat:
                if isinstance(v, SymC):
                    tot = tot + v * v.conjugate()
                else:
                    v = complex(v.item() if hasattr(v, "item") else v)
                    tot = tot + (v.real * v.real + v.imag * v.imag)
            if isinstance(tot, SymC):
                return tot.real.sqrt() if not tot.is_real_syntactic() else tot.sqrt()
            return math.sqrt(tot)
        return orig_norm(tensor, like=like, **kwargs) if like is not None else orig_norm(tensor, **kwargs)

    pmd.norm = norm
    pm.norm = norm

    # --- autoray astype on object arrays
    try:
        autoray.register_function("numpy", "astype", lambda x, dtype, **k: x if symbolic(x) else np.asarray(x).astype(dtype))
    except Exception:
        pass

    # --- Operator2 dtype validation
    try:
        import pennylane.core.operator.operator2 as o2

        orig_iat = o2._init_arg_types
        o2._init_arg_types_orig = orig_iat
        o2._init_arg_types = _guard_iat(orig_iat, symbolic)
    except Exception:
        pass

    # --- allclose / isclose
    def _sym_in(*xs):
        for x in xs:
            if symbolic(x):
                return True
            if isinstance(x, (list, tuple)) and any(symbolic(v) for v in x):
                return True
        return False

    def wrap_close(orig, reducer):
        def f(a, b, *args, **kw):
            if _sym_in(a, b):
                A = arr(np.asarray(a, dtype=object))
                B = arr(np.asarray(b, dtype=object))
                A, B = np.broadcast_arrays(A, B)
                if reducer:
                    r = SymB(CUR, const=True)
                    for x, y in zip(A.ravel(), B.ravel()):
                        r = r & (x == y)
                    return r
                out = np.empty(A.shape, dtype=object)
                for i, (x, y) in enumerate(zip(A.ravel(), B.ravel())):
                    out.ravel()[i] = x == y
                return out if out.shape else out.item()
            return orig(a, b, *args, **kw)

        f.__wrapped__ = orig
        return f

    import sys

    for nm, red in (("allclose", True), ("isclose", False)):
        orig = getattr(pm, nm)
        new = wrap_close(orig, red)
        for m in list(sys.modules.values()):
            if m is None or not getattr(m, "__name__", "").startswith("pennylane"):
                continue
            try:
                if m.__dict__.get(nm) is orig:
                    m.__dict__[nm] = new
            except Exception:
                pass
        setattr(pm, nm, new)

    # --- expm on symbolic matrices: diagonal, or (symbolic scalar) x (concrete involution)
    import sys
    pmd = sys.modules["pennylane.math.multi_dispatch"]
    orig_expm = pmd.expm

    def expm(tensor, like=None):
        if symbolic(tensor):
            return sym_expm(tensor)
        return orig_expm(tensor, like=like)

    for m in list(sys.modules.values()):
        if m is None or not getattr(m, "__name__", "").startswith("pennylane"):
            continue
        try:
            if m.__dict__.get("expm") is orig_expm:
                m.__dict__["expm"] = expm
        except Exception:
            pass
    pm.expm = expm

    # --- is_abstract switch
    orig_abs = pm.is_abstract

    def is_abstract(x, like=None):
        if CUR is not None and CUR.abstract and symbolic(x):
            return True
        if symbolic(x):
            return False
        return orig_abs(x, like=like) if like is not None else orig_abs(x)

    for m in list(sys.modules.values()):
        if m is None or not getattr(m, "__name__", "").startswith("pennylane"):
            continue
        try:
            if m.__dict__.get("is_abstract") is orig_abs:
                m.__dict__["is_abstract"] = is_abstract
        except Exception:
            pass
    pm.is_abstract = is_abstract

    # --- PauliSentence.dot writes into a complex128 buffer: keep object prototypes as object buffers
    class _NpZerosLike:
        def __getattr__(self, k):
            return getattr(np, k)

        @staticmethod
        def zeros_like(x, dtype=None, **k):
            if isinstance(x, np.ndarray) and x.dtype == object:
                return np.zeros(x.shape, dtype=object)
            return np.zeros_like(x, dtype=dtype, **k)

    try:
        pa = importlib.import_module("pennylane.pauli.pauli_arithmetic")
        pa.np = _NpZerosLike()
    except Exception:
        pass

    # --- initial state of default.qubit as object array
    simmod = importlib.import_module("pennylane.devices.qubit.simulate")
    orig_cis = simmod.create_initial_state

    def cis(*a, **k):
        st = orig_cis(*a, **k)
        if CUR is not None and getattr(CUR, "object_state", True):
            return np.asarray(st).astype(object)
        return st

    simmod.create_initial_state = cis


def _guard_iat(orig, symbolic):
    def anysym(o, depth=0):
        if symbolic(o):
            return True
        if depth > 3:
            return False
        if isinstance(o, (list, tuple)):
            return any(anysym(v, depth + 1) for v in o)
        if isinstance(o, dict):
            return any(anysym(v, depth + 1) for v in o.values())
        d = getattr(o, "data", None)
        if isinstance(d, (list, tuple)) and depth < 2:
            return any(anysym(v, depth + 1) for v in d)
        return False

    def f(*a, **k):
        if anysym(a) or anysym(k):
            return None
        try:
            return orig(*a, **k)
        except ValueError as e:  # symbolic data nested deeper than the scan above (e.g. operands of symbolic operators)
            if "received object" in str(e):
                return None
            raise

    return f


# --------------------------------------------------------------------------------------------
# queries
class Result:
    def __init__(self, status, time_s, model=None, solver="z3", note=""):
        self.status, self.time_s, self.model, self.solver, self.note = status, time_s, model, solver, note

    def __repr__(self):
        return f"Result({self.status}, {self.time_s:.3f}s, {self.note})"


def _collect_polys(S, A, B=None):
    """list of polynomials that must all vanish for A == B"""
    A = arr(A, S)
    if B is not None:
        B = arr(B, S)
        if A.shape != B.shape:
            raise AssertionError(f"shape mismatch {A.shape} vs {B.shape}")
        ps = [P.sub(x.p, y.p) for x, y in zip(A.ravel(), B.ravel())]
    else:
        ps = [x.p for x in A.ravel()]
    return ps


def circle_reduce(S, p):
    """rewrite s^2 -> 1 - c^2 for every circle atom (sound: uses the constraint c^2+s^2=1)"""
    for name, (c, s) in S.atoms.items():
        if P.degree_in(p, s) >= 2:
            out = {}
            one_minus = P.sub(P.ONE, P.mul(P.var(c), P.var(c), S.V))
            for m, co in p.items():
                e = 0
                rest = []
                for vv, ee in m:
                    if vv == s:
                        e = ee
                    else:
                        rest.append((vv, ee))
                if e < 2:
                    out = P.add(out, {m: co})
                    continue
                t = {tuple(rest) if e % 2 == 0 else P._mmul(tuple(rest), ((s, 1),)): co}
                t = P.mul(t, P.power(one_minus, e // 2, S.V), S.V)
                out = P.add(out, t)
            p = out
    return p


def fixed_bits(S, polys):
    """0/1 variables (Session.bit) occurring in `polys` whose value is determined by the path condition: {index: 0 or 1}.
    Decided by z3 on the path condition and the bit constraints alone (sound: an implied value may be substituted)."""
    bits = getattr(S, "_bits", None)
    if not bits or not S.pathcond:
        return {}
    named = set()
    for e in S.pathcond:
        named |= _z3_var_names(e)
    cand = set()
    for p in polys:
        cand |= {i for i in P.variables(p) if i in bits and S.V.names[i] in named}
    if not cand:
        return {}
    cache = S.__dict__.setdefault("_fixed_bits_cache", {})
    key = len(S.pathcond)
    out = {}
    sol = None
    for i in sorted(cand):
        if (key, i) in cache:
            if cache[(key, i)] is not None:
                out[i] = cache[(key, i)]
            continue
        if sol is None:
            sol = z3.Solver()
            sol.set("timeout", 5000)
            sol.add(*S.pathcond)
            for j in bits:
                zv = S.zvar(j)
                sol.add(z3.Or(zv == 0, zv == 1))
        zv = S.zvar(i)
        val = None
        if str(sol.check(zv == 1)) == "unsat":
            val = 0
        elif str(sol.check(zv == 0)) == "unsat":
            val = 1
        cache[(key, i)] = val
        if val is not None:
            out[i] = val
    return out


def substitute_fixed_bits(S, xs):
    """xs: list of SymC / numbers; outcome bits whose value is implied by the path condition are replaced by that value"""
    polys = [x.p for x in xs if isinstance(x, SymC)]
    fixed = fixed_bits(S, polys)
    if not fixed:
        return list(xs), {}
    out = []
    for x in xs:
        if isinstance(x, SymC):
            p = x.p
            for i, val in fixed.items():
                if P.degree_in(p, i):
                    p = P.subs_var(p, i, P.const(val), S.V)
            x = SymC(S, p)
        out.append(x)
    return out, {S.V.names[i]: v for i, v in fixed.items()}


def solve_nonzero(S, polys, extra=(), timeout_s=30, want_model=True, tol=None, pre_reduce=False):
    """Is there an assignment satisfying the session constraints (+path condition +extra) under which
    some polynomial in `polys` is non-zero (|.|>tol if tol)?  unsat => identity proved."""
    t0 = time.time()
    nz = [p for p in polys if p]
    note = ""
    fixed = fixed_bits(S, nz)
    if fixed:
        nz2 = []
        for p in nz:
            for i, val in fixed.items():
                if P.degree_in(p, i):
                    p = P.subs_var(p, i, P.const(val), S.V)
            if p:
                nz2.append(p)
        nz = nz2
        note = f"{len(fixed)} outcome bits fixed by the path condition substituted "
    if pre_reduce:
        nz = [q for q in (circle_reduce(S, p) for p in nz) if q]
        note += "circle-normalised"
    used = set()
    for p in nz:
        used |= P.variables(p)
    for e in list(extra) + list(S.pathcond):
        for v in _z3_var_names(e):
            i = S.V.index.get(v)
            if i is not None:
                used.add(i)
    sol = z3.Solver()
    sol.set("timeout", int(timeout_s * 1000))
    sol.add(*S.z3constraints(used))
    sol.add(*S.pathcond)
    sol.add(*extra)
    dis = []
    for p in nz:
        re, im = P.split_complex(p)
        for q in (re, im):
            if q:
                t = S.z3poly(q)
                if tol:
                    tv = z3.RealVal(str(F(tol)))
                    dis.append(z3.Or(t > tv, t < -tv))
                else:
                    dis.append(t != 0)
    sol.add(z3.Or(*dis) if dis else z3.BoolVal(False))
    r = str(sol.check())
    dt = time.time() - t0
    if r == "unsat":
        return Result("unsat", dt, note=note)
    if r == "sat":
        mdl = model_floats(S, sol.model()) if want_model else None
        if mdl is not None and fixed:
            for i, val in fixed.items():
                mdl.setdefault("vars", {})[S.V.names[i]] = float(val)
        return Result("sat", dt, model=mdl, note=note)
    return Result("unknown", dt, note=note + " " + str(sol.reason_unknown()))


def _z3_var_names(e):
    out = set()
    stack = [e]
    seen = set()
    while stack:
        x = stack.pop()
        if x.get_id() in seen:
            continue
        seen.add(x.get_id())
        if z3.is_const(x) and x.decl().kind() == z3.Z3_OP_UNINTERPRETED:
            out.add(x.decl().name())
        else:
            stack.extend(x.children())
    return out


def prove_zero(S, polys, extra=(), timeout_s=30, tol=None):
    """unsat/sat/unknown with the fallback chain: raw -> circle-normalised."""
    tot = 0.0
    if S.atoms and 0 < sum(len(p) for p in polys) <= 200000:
        # cheap first step: s^2 -> 1 - c^2 is a canonical form modulo the circle relations; an identity that reduces to the zero
        # polynomial needs no solver search (solve_nonzero then asserts `false` and z3 answers unsat immediately)
        t0 = time.time()
        fx = fixed_bits(S, [p for p in polys if p])
        allzero = True
        for p in polys:
            for i, val in fx.items():
                if p and P.degree_in(p, i):
                    p = P.subs_var(p, i, P.const(val), S.V)
            if p and circle_reduce(S, p):
                allzero = False
                break
        tot += time.time() - t0
        if allzero:
            r = solve_nonzero(S, polys, extra, timeout_s=timeout_s, tol=tol, pre_reduce=True)
            r.time_s += tot
            return r
    if sum(len(p) for p in polys) > 2000:  # large identities: the circle-normalised form first (usually syntactically zero), raw only as a fallback
        r = solve_nonzero(S, polys, extra, timeout_s=timeout_s, tol=tol, pre_reduce=True)
        if r.status != "unknown":
            return r
        tot += r.time_s
    r = solve_nonzero(S, polys, extra, timeout_s=min(timeout_s, max(5, timeout_s / 3)), tol=tol)
    tot += r.time_s
    if r.status == "unknown":
        r2 = solve_nonzero(S, polys, extra, timeout_s=timeout_s, tol=tol, pre_reduce=True)
        tot += r2.time_s
        r = r2
    r.time_s = tot
    return r


def prove_equal(S, A, B, **kw):
    return prove_zero(S, _collect_polys(S, A, B), **kw)


def satisfiable(S, extra=(), timeout_s=10, used_polys=()):
    """reachability twin: are the accumulated constraints + path condition satisfiable?"""
    sol = z3.Solver()
    sol.set("timeout", int(timeout_s * 1000))
    used = set()
    for p in used_polys:
        used |= P.variables(p)
    for e in list(extra) + list(S.pathcond):
        for v in _z3_var_names(e):
            i = S.V.index.get(v)
            if i is not None:
                used.add(i)
    sol.add(*S.z3constraints(used if used else None))
    sol.add(*S.pathcond)
    sol.add(*extra)
    return str(sol.check())


def _alg_to_float(v):
    if v is None:
        return None
    if z3.is_rational_value(v):
        return float(v.numerator_as_long()) / float(v.denominator_as_long())
    if z3.is_algebraic_value(v):
        a = v.approx(30)
        return float(a.numerator_as_long()) / float(a.denominator_as_long())
    try:
        return float(v.as_decimal(30).rstrip("?"))
    except Exception:
        return None


def model_floats(S, model):
    """z3 model -> {'params': {name: theta}, 'vars': {name: float}}"""
    vals = {}
    for d in model.decls():
        vals[d.name()] = _alg_to_float(model[d])
    params = {}
    for name, (c, s) in S.atoms.items():
        cv = vals.get(S.V.names[c])
        sv = vals.get(S.V.names[s])
        if cv is None and sv is None:
            continue
        cv = 1.0 if cv is None else cv
        sv = 0.0 if sv is None else sv
        if cv == 0 and sv == 0:
            cv = 1.0
        params[name] = S.Dof(name) * math.atan2(sv, cv)
    for name in S.params:
        if name not in params:
            v = vals.get(name)
            params[name] = 0.0 if v is None else v
    return {"params": params, "vars": vals}


# --------------------------------------------------------------------------------------------
# numeric evaluation (self-validation and replay support)
def assignment(S, theta: dict, free: dict | None = None):
    """values for every variable given parameter angles and free-variable values; fresh variables
    defined by constraints (sqrt/abs/inv) are not solved here -> only use for constraint-free parts"""
    vals = dict(_const_values(S))
    free = free or {}
    V = S.V
    for i, nm in enumerate(V.names):
        k = V.kind[i]
        if k == "param":
            vals[i] = theta.get(nm, 0.0)
        elif k == "cos":
            vals[i] = math.cos(theta.get(V.meta[i], 1.0 if V.meta[i] == "_rad" else 0.0) / S.Dof(V.meta[i]))
        elif k == "sin":
            vals[i] = math.sin(theta.get(V.meta[i], 1.0 if V.meta[i] == "_rad" else 0.0) / S.Dof(V.meta[i]))
        elif k == "free":
            vals[i] = free.get(nm, 0.0)
    return vals


def evalf(S, x, vals):
    a = arr(x, S)
    out = np.empty(a.shape, dtype=complex)
    for i, v in enumerate(a.ravel()):
        out.ravel()[i] = P.evalf(v.p, vals)
    return out


# --------------------------------------------------------------------------------------------
# differentiation
def d_dparam(S, x, name):
    """derivative with respect to parameter theta_name of a SymC / object array"""
    V = S.V

    def one(v):
        p = v.p
        out = {}
        if name in S.params:
            idx = V.index[name]
            out = P.add(out, P.diff(p, idx))
        if name in S.atoms:
            c, s = S.atoms[name]
            D = S.Dof(name)
            dc = P.mul(P.diff(p, c), P.scale(P.var(s), F(-1, D)), V)
            ds = P.mul(P.diff(p, s), P.scale(P.var(c), F(1, D)), V)
            out = P.add(out, P.add(dc, ds))
        return SymC(S, out)

    if isinstance(x, SymC):
        return one(x)
    a = arr(x, S)
    out = np.empty(a.shape, dtype=object)
    for i, v in enumerate(a.ravel()):
        out.ravel()[i] = one(v)
    return out


# --------------------------------------------------------------------------------------------
# driver: run a harness with automatic denominator refinement and path exploration
def explore(build, D=None, default_D=2, abstract=False, max_paths=32, max_refine=6):
    """build(S) is executed once per feasible decision path (re-execution under a decision prefix).
    Yields (S, value) per path.  Granularity errors restart everything with refined denominators."""
    D = dict(D or {})
    for _ in range(max_refine):
        try:
            results = []
            dropped = []
            pending = [[]]
            npaths = 0
            while pending:
                prefix = pending.pop()
                S = session(D=D, default_D=default_D, abstract=abstract)
                S.prefix = prefix
                try:
                    val = build(S)
                    results.append((S, val))
                except OutOfBound as e:
                    if str(e) not in dropped:
                        dropped.append(str(e))
                npaths += 1
                for pfx in S.pending:
                    pending.append(pfx)
                if npaths >= max_paths and pending:
                    raise PathLimit(f"more than {max_paths} paths")
            for S, _ in results:
                S.assumed.extend(d for d in dropped if d not in S.assumed)
            return results
        except Granularity as g:
            D[g.param] = _lcm(D.get(g.param, default_D), g.need)
            if D[g.param] > 64:
                raise Unsupported(f"granularity of {g.param} exceeds 64")
    raise Unsupported("denominator refinement did not converge")


def at_param_zero(S, x, name):
    """value of a SymC/array at theta_name = 0 (c=1, s=0, raw theta=0)"""
    V = S.V

    def one(v):
        p = v.p
        if name in S.atoms:
            c, s = S.atoms[name]
            p = P.subs_var(p, s, {}, V)
            p = P.subs_var(p, c, P.ONE, V)
        if name in V.index:
            p = P.subs_var(p, V.index[name], {}, V)
        return SymC(S, p)

    if isinstance(x, SymC):
        return one(x)
    a = arr(x, S)
    out = np.empty(a.shape, dtype=object)
    for i, v in enumerate(a.ravel()):
        out.ravel()[i] = one(v)
    return out


def embed(M, op_wires, wire_order):
    """own re-indexing oracle: matrix of an operator with matrix M on op_wires, written in wire_order"""
    M = np.asarray(M, dtype=object)
    n, k = len(wire_order), len(op_wires)
    pos = [list(wire_order).index(w) for w in op_wires]
    rest = [q for q in range(n) if q not in pos]
    N = 2 ** n
    out = np.zeros((N, N), dtype=object)
    for col in range(N):
        cb = [(col >> (n - 1 - q)) & 1 for q in range(n)]
        sub_in = 0
        for q in pos:
            sub_in = (sub_in << 1) | cb[q]
        for sub_out in range(2 ** k):
            v = M[sub_out, sub_in]
            if not isinstance(v, SymC) and v == 0:
                continue
            rb = list(cb)
            for t, q in enumerate(pos):
                rb[q] = (sub_out >> (k - 1 - t)) & 1
            row = 0
            for b in rb:
                row = (row << 1) | b
            out[row, col] = v
    return out
